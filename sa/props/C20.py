"""C20 — k-means assigns to the nearest centroid; cluster-derived GMM init is exact."""
from __future__ import annotations

import ast

from ..dataflow import cone, get_defuse, stores
from ..engines import dimrun, pol
from ..engines.dim import fmt
from ..frontend import const_value, src, walk_no_nested

EXPLANATION = (
    "Decides for all centroids, data and chunkings at once: (DIM/SHAPE) the distances are U^2 with shape (clusters, samples) in the "
    "SciPy arm and in the per-centroid Dask arm, also for a single sample; predict is the argmin over the *cluster* axis and has one "
    "entry per sample; (EXT) the per-block partials of the cluster statistics are extensive (sums of x: U*S, of x^2: U^2*S) and are "
    "folded over all blocks before the single normalisation; weights = count / count.sum() is a pure intensive number and variances = "
    "sum(x^2)/count - mean^2 is U^2 with the squared mean subtracted (POL); (FIELDS/DIM) the callee returns (variances, weights) and "
    "the GMM unpacks into (variances, weights) in that order (a swap is a dimension error U^2 vs 1); (OWN/DEP) the GMM's means are a "
    "deep copy of the k-means centroids and its variances and weights come from the same fitted k-means machine on the same data; "
    "(BRANCH) the NumPy and Dask arms return the same abstract type. Cancellation at large offsets, SciPy's cdist and ties are not decided."
)
ASSUMPTIONS = ["scipy.spatial.distance.cdist(a, b, 'sqeuclidean') is (len(a), len(b)) squared distances", "np.bincount counts occurrences"]


def run(P, R, tier):
    n, rets = dimrun.route(P, R, ["km.transform", "km.transform1", "km.predict", "km.varw", "gmm.init"], rules=["DIM.", "EXT."], where_prefix=["kmeans:", "gmm:GMMMachine.initialize_gaussians", "utils:"])
    R.floor("DIM/EXT obligations (k-means assignment / cluster statistics)", n, 15)
    for nm in ("km.transform", "km.varw", "km.predict"):
        dimrun.compare_modes(P, R, nm)
    # predict: index over clusters, one per sample
    for mode in (False, True):
        r = rets.get(("km.predict", mode))
        ok = r is not None and r.is_numlike and r.index_of == "C" and r.sh == ("N",)
        R.check(ok, "SHAPE.predict", "kmeans:KMeansMachine.predict", f"{'Dask' if mode else 'NumPy'} arm returns {fmt(r)} index_of={getattr(r, 'index_of', None)}", "index of a cluster, one per sample", "predict does not return, for every sample, an index over the clusters (argmin over the wrong axis)")
    r1 = rets.get(("km.transform1", False))
    R.check(r1 is not None and r1.is_numlike and r1.sh is not None and len(r1.sh) == 2 and r1.sh[0] == "C", "SHAPE.single", "kmeans:KMeansMachine.transform", f"single sample -> {fmt(r1)}", "one row per centroid, one column for the sample", "a single sample is not handled as a batch of one")
    # POL of the variance formula
    f = P.func("kmeans:reduce_indices_means_vars")
    R.analysed(f)
    du = get_defuse(f, P)
    p = pol.Pol(P, f)
    for r in [x for x in walk_no_nested(f.node) if isinstance(x, ast.Return) and isinstance(x.value, ast.Tuple) and len(x.value.elts) == 2]:
        v, w = r.value.elts
        tv = list(dict.fromkeys(p.terms(v, r)))
        sp = f.value_params[0]
        pos = [t for t in tv if t[0] == 1]
        neg = [t for t in tv if t[0] == -1]
        R.check(bool(pos) and bool(neg), "POL.variance", f.key, f"variances = {pol.fmt_terms(tv)[:90]}", "E[x^2] - mean^2", "the cluster variance is not second moment minus squared mean", r.lineno)
        cw = cone(du, w, r, interproc=False)
        cv = cone(du, v, r, interproc=False)
        R.check(cw.calls_any("bincount") and any(x.endswith("sum") for x in cw.calls), "DEP.weights", f.key, f"weights = {src(w)}", "assigned fraction: count / total", "cluster weights are not the fraction of samples assigned to each cluster", r.lineno)
        R.check(cv.calls_any("bincount"), "DEP.variances", f.key, f"variances = {src(v)}", "normalised by the cluster count", "cluster variances are not normalised by the cluster count", r.lineno)
        # "the fractions of samples assigned to each cluster": the counts that enter the weights are the counts as counted - a
        # clamped / floored count (a phantom sample for an empty cluster) is not a number of assigned samples
        clamps = [x for x in cw.nodes if isinstance(x, ast.Call) and (x.func.attr if isinstance(x.func, ast.Attribute) else getattr(x.func, "id", "")) in ("maximum", "minimum", "clip", "fmax", "fmin", "where", "nan_to_num")]
        clamps = [x for x in clamps if any(isinstance(y, ast.Call) and (y.func.attr if isinstance(y.func, ast.Attribute) else "") == "bincount" for y in cone(du, x, du.stmt_of(x), interproc=False).nodes)]
        R.check(not clamps, "DEP.weights-exact", f.key, f"weights = {src(w)}", "the counts as counted", f"the counts that enter the weights pass through `{src(clamps[0])[:50] if clamps else ''}`: an empty cluster is given a phantom sample, so the weights are no longer the fractions of samples assigned (the other clusters' weights shrink and an empty cluster gets a positive weight)", r.lineno)
    check_reduce_cover(P, R)
    check_accumulator_allocation(P, R)
    from .C06 import check_cluster_masks
    check_cluster_masks(P, R)
    # GMM initialisation from the k-means result
    _rest(P, R)


def check_accumulator_allocation(P, R, rule="DTYPE.accumulator"):
    """Arrays that receive per-cluster sums of the data are allocated as float arrays of the data's kind, not with the dtype of
    the centroids (integer / float32 centroids would truncate or round every per-block sum)."""
    for key in ("kmeans:accumulate_indices_means_vars", "kmeans:e_step"):
        f = P.func(key)
        du = get_defuse(f, P)
        dp, mp = f.value_params[:2]
        filled = set()
        for st, t, v, k in stores(f):
            if isinstance(t, ast.Subscript) and isinstance(t.value, ast.Name) and v is not None:
                c = cone(du, v, du.stmt_of(st), interproc=False)
                if dp in c.params and c.calls_any("sum"):
                    filled.add(t.value.id)
        for st, t, v, k in stores(f):
            if isinstance(t, ast.Name) and t.id in filled and isinstance(v, ast.Call):
                fn = src(v.func).split(".")[-1]
                if fn in ("zeros", "empty", "full", "zeros_like", "empty_like", "full_like", "ones_like"):
                    like_means = fn.endswith("_like") and v.args and isinstance(v.args[0], ast.Name) and v.args[0].id == mp
                    dt = next((k_.value for k_ in v.keywords if k_.arg == "dtype"), None)
                    dt_means = dt is not None and mp in {n.id for n in ast.walk(dt) if isinstance(n, ast.Name)}
                    int_dtype = dt is not None and src(dt) in ("int", "np.int64", "np.int32", "np.float32", "'float32'", "'int'")
                    float_dtype = dt is not None and src(dt) in ("float", "np.float64", "numpy.float64", "np.double", "'float64'", "'float'", "'f8'", "np.float_")
                    like_means = like_means and not float_dtype  # *_like(means, dtype=float): the shape of the centroids, a float dtype
                    R.check(not (like_means or dt_means or int_dtype), rule, key, f"{t.id} = {src(v)[:60]}", "float accumulator independent of the centroids' dtype", f"the accumulator `{t.id}` takes its dtype from the centroids `{mp}` (or a narrow dtype): with integer or float32 centroids every per-block sum is truncated/rounded, and the result depends on the chunking", st.lineno)


def check_reduce_cover(P, R):
    """reduce_indices_means_vars uses component i of every block's statistics.
    Whole-list idioms: `[s[i] for s in stats]`, `for a, b, c in stats:` / `for s in stats:`; partial idioms (reported):
    a slice or a single element of the list.  Anything else is left undecided."""
    f = P.func("kmeans:reduce_indices_means_vars")
    prm = f.value_params[0]
    uses = [n_ for n_ in walk_no_nested(f.node) if isinstance(n_, ast.Name) and n_.id == prm and isinstance(n_.ctx, ast.Load)]
    whole_loop = set()   # components bound by a for loop over the whole list
    for n_ in walk_no_nested(f.node):
        if isinstance(n_, ast.For) and isinstance(n_.iter, ast.Name) and n_.iter.id == prm:
            if isinstance(n_.target, ast.Tuple):
                body_names = {x.id for b_ in n_.body for x in ast.walk(b_) if isinstance(x, ast.Name)}
                for i, e_ in enumerate(n_.target.elts):
                    if isinstance(e_, ast.Name) and e_.id in body_names:
                        whole_loop.add(i)
            elif isinstance(n_.target, ast.Name):
                for x in (y for b_ in n_.body for y in ast.walk(b_)):
                    if isinstance(x, ast.Subscript) and isinstance(x.value, ast.Name) and x.value.id == n_.target.id and isinstance(const_value(x.slice), int):
                        whole_loop.add(const_value(x.slice))
    partial = [u for u in uses if isinstance(getattr(u, "_parent", None), ast.Subscript) and u._parent.value is u and (isinstance(u._parent.slice, ast.Slice) or (isinstance(const_value(u._parent.slice), int) and not isinstance(getattr(u._parent, "_parent", None), ast.Subscript)))]
    # stats[0][1] used only for its shape is not a partial use of the data
    partial = [u for u in partial if not _shape_only(u)]
    for idx, what in ((0, "assignments"), (1, "sums of x"), (2, "sums of x^2")):
        ok = idx in whole_loop
        for n_ in walk_no_nested(f.node):
            if isinstance(n_, ast.ListComp) and len(n_.generators) == 1:
                g = n_.generators[0]
                if isinstance(g.iter, ast.Name) and g.iter.id == prm and not g.ifs and isinstance(n_.elt, ast.Subscript) and const_value(n_.elt.slice) == idx and isinstance(n_.elt.value, ast.Name) and isinstance(g.target, ast.Name) and n_.elt.value.id == g.target.id:
                    ok = True
        what_ = f"component {idx} ({what}) collected from every block"
        if ok and not partial:
            R.ok("COVER.blocks", f.key, what_, "")
        elif partial or any(isinstance(n_, ast.ListComp) and any(isinstance(g.iter, ast.Subscript) or g.ifs for g in n_.generators) and prm in {x.id for x in ast.walk(n_) if isinstance(x, ast.Name)} for n_ in walk_no_nested(f.node)):
            R.violation("COVER.blocks", f.key, what_, f"the per-block {what} (component {idx}) are not collected from every block of `{prm}` (a slice, a single element or a filter of the list is used)")
        elif not ok and not uses:
            R.violation("COVER.blocks", f.key, what_, f"`{prm}` is not used at all")
        elif not ok:
            R.undecided("COVER.blocks", f.key, what_, f"`{prm}` is consumed in a way the rule does not recognise (neither a whole-list comprehension / loop nor a slice)")


def _shape_only(u):
    p = u
    for _ in range(6):
        p = getattr(p, "_parent", None)
        if p is None:
            return False
        if isinstance(p, ast.Call) and src(p.func).split(".")[-1] in ("shape", "len", "zeros_like", "ones_like", "empty_like"):
            return True
        if isinstance(p, ast.Attribute) and p.attr in ("shape", "ndim", "dtype"):
            return True
        if isinstance(p, ast.stmt):
            return False
    return False


def _rest(P, R):
    g = P.func("gmm:GMMMachine.initialize_gaussians")
    R.analysed(g)
    gdu = get_defuse(g, P)
    km_names = set()
    for st, t, v, k in stores(g):
        if isinstance(t, ast.Name) and isinstance(v, ast.Call) and isinstance(v.func, ast.Attribute) and v.func.attr == "fit":
            km_names.add(t.id)
            R.check(len(v.args) == 1 and isinstance(v.args[0], ast.Name) and v.args[0].id == g.value_params[0], "DEP.init", g.key, src(v), "k-means fitted on the training data", "k-means is not fitted on the data the GMM is initialised for", st.lineno)
    for st, t, v, k in stores(g):
        if isinstance(t, ast.Attribute) and t.attr == "means" and v is not None and "centroids_" in src(v):
            copied = isinstance(v, ast.Call) and (src(v.func) in ("copy.deepcopy", "np.array", "np.copy") or (isinstance(v.func, ast.Attribute) and v.func.attr == "copy"))
            R.check(copied, "OWN.means-copy", g.key, src(st)[:70], "deep copy of the centroids", "the GMM means alias the k-means machine's centroid array", st.lineno)
            c = cone(gdu, v, gdu.stmt_of(st), interproc=False)
            R.check(any(n in {d.var for d in c.defs} for n in km_names), "DEP.init", g.key, "means from the fitted k-means machine", "", "GMM means do not come from the fitted k-means machine", st.lineno)
            # "starts from exactly these centroids": a copy, not a conversion - no dtype taken from elsewhere, no arithmetic
            conv = [x for x in ast.walk(v) if isinstance(x, ast.Call) and (any(kw.arg == "dtype" and src(kw.value) not in ("float", "np.float64", "numpy.float64", "np.double", "'float64'", "'float'", "'f8'") for kw in x.keywords) or (isinstance(x.func, ast.Attribute) and x.func.attr in ("astype", "round", "around", "rint", "floor", "ceil", "clip") ))]
            arith = [x for x in ast.walk(v) if isinstance(x, (ast.BinOp, ast.UnaryOp))]
            R.check(not conv and not arith, "DEP.init-exact", g.key, f"means = {src(v)[:60]}", "the centroids, copied unchanged", f"the initial means are the centroids passed through `{src((conv or arith or [v])[0])[:50]}`: converted to another dtype (the data's: integer-typed or float32 samples) or recomputed, they are no longer exactly the centroids the k-means machine reports", st.lineno)
        if isinstance(t, ast.Attribute) and t.attr in ("variances", "weights") and isinstance(v, ast.Call) and isinstance(v.func, ast.Attribute) and v.func.attr == "get_variances_and_weights_for_each_cluster":
            same_machine = isinstance(v.func.value, ast.Name) and v.func.value.id in km_names
            same_data = len(v.args) == 1 and isinstance(v.args[0], ast.Name) and v.args[0].id == g.value_params[0]
            R.check(same_machine and same_data, "DEP.init", g.key, f"{t.attr} from {src(v)[:60]}", "same machine, same data", "cluster variances/weights are not computed by the fitted k-means machine on the training data", st.lineno)
    # in the k-means arm, variances and weights are exactly what the fitted machine derives from the training data:
    # every store of them (outside the MAP arm) has that call - on the training data - in its cone
    from ..cfg import guards_of as _guards_of
    n_vw = 0
    for st, t, v, k in stores(g):
        if isinstance(t, ast.Attribute) and isinstance(t.value, ast.Name) and t.value.id == g.self_name and t.attr in ("variances", "weights") and v is not None:
            sst = gdu.stmt_of(st)
            from .C05 import _map_side
            if any(_map_side(test) is not None and _map_side(test) == pol_ for test, pol_ in _guards_of(sst)):
                continue  # MAP arm: copied from the prior (C05)
            n_vw += 1
            c = cone(gdu, v, sst, interproc=False)
            calls = [x for x in c.nodes if isinstance(x, ast.Call) and isinstance(x.func, ast.Attribute) and x.func.attr == "get_variances_and_weights_for_each_cluster"]
            okc = bool(calls) and all(len(x.args) == 1 and isinstance(x.args[0], ast.Name) and x.args[0].id == g.value_params[0] for x in calls)
            direct = isinstance(v, ast.Call) and v in calls
            if isinstance(v, ast.Name):
                rd_ = gdu.reaching(sst, v.id)
                direct = bool(rd_) and all(d.how in ("assign", "unpack") and d.value in calls for d in rd_)
            R.check(okc and direct, "DEP.init-exact", g.key, f"{src(t)} = {src(v)[:60]}", "exactly the per-cluster statistics of the training data", f"the initial {t.attr} are not (exactly) what the fitted k-means machine derives from the training data: {src(v)[:80]}", st.lineno)
    R.floor("DEP.init-exact stores", n_vw, 2)
    from ..engines import dtype as _dt
    n_dt = _dt.check_function(P, R, "kmeans:accumulate_indices_means_vars", raw_params=("data",))
    n_dt += _dt.check_function(P, R, "kmeans:get_centroids_distance", raw_params=("x", "means"))  # "for any centroids and samples": both are the caller's arrays (D14)
    R.floor("DTYPE.raw sites (k-means moments)", n_dt, 2)
    from ..engines import traps as _traps
    _traps.check(P, R, ['kmeans', 'gmm'], scope='(kmeans:|gmm:GMMMachine\\.initialize_gaussians)')
    # the hand-over is observed with max_fitting_steps=0 (no EM iteration): the cap of the training loop is honoured for 0 as well
    from ..engines import loop as _loop20
    _loop20.analyse(P, R, "gmm:GMMMachine.fit", "max_fitting_steps", "convergence_threshold", ("m_step",))


EXPLANATION += ' Also: (DEP.init-exact) in the k-means arm the initial variances and weights are exactly what the fitted machine derives from the training data; (DTYPE.raw) squares of the samples are taken in floating point (D13).'
EXPLANATION += ' (IDX.mask-eq generalised by GROUP, as in C06).'
