"""C01 — GMM log-likelihood is the log of a normalised diagonal-Gaussian mixture density."""
from __future__ import annotations

import ast

from ..dataflow import cone, get_defuse
from ..engines import cache, dimrun
from ..frontend import src, walk_no_nested

EXPLANATION = (
    "Decides, for all machines and samples at once: (DIM) the per-component weighted log-likelihood has type LOG[U^-d] with shape "
    "(components, samples): the quadratic form is a pure number (so the squared difference is divided by the variance, not its square "
    "or root), the cached normaliser is LOG[U^2d] (sum over features of log variance) and both enter with the factor -1/2, the log-"
    "weights are added; (CONST, compile-time constant folding) the pure-number part of the normaliser folds to log(2*pi) per feature "
    "at both places it is computed and to -0.5*log(2*pi)*d in the result, so the implied density integrates to one; (DEP) the result "
    "depends on the data, means, variances and weights and its cone contains a pi-constant; (LOGDOM) the reduction over the component "
    "axis is a log-sum-exp in the NumPy arm and in the Dask arm (chunk and aggregate), never exp -> sum -> log of un-normalised "
    "log-densities (which underflows in the tails); (BRANCH/SHAPE) both arms return LOG[U^-d] of shape (samples,), a single vector is "
    "turned into a batch of one by atleast_2d on both public paths, (C,)+(C,N) broadcasts go through [:, None]; (CACHE) the C17 pairing "
    "rules for the normaliser and log-weight caches. Numerical agreement with an independent density and accuracy in ulps are not decided."
)
ASSUMPTIONS = [
    "np.logaddexp.reduce / scipy.special.logsumexp are log-sum-exp reducers; da.reduction applies chunk then aggregate along the axis",
    "declared types of sa/tables/dim_types.py (log-likelihoods shift by -sum(log|a|) under feature rescaling: C15)",
]

ROOTS = ["gmm.lwl", "gmm.ll", "gmm.ll1", "gmm.set.variances", "gmm.set.weights", "gmm.get.g_norms", "gmm.e_step"]


def run(P, R, tier):
    n, rets = dimrun.route(P, R, ROOTS, rules=["DIM."], where_prefix=["gmm:"], exclude_rules=["DIM.D2-root"])
    R.floor("DIM obligations (log-likelihood)", n, 10)
    obs, rets = dimrun.run_roots(P, ROOTS)
    const_ok = [o for o in obs if o[1] == "DIM.CONST"]
    R.floor("DIM.CONST sites (normaliser constant folded)", len({(o[2], o[3]) for o in const_ok}), 3)
    dimrun.compare_modes(P, R, "gmm.ll")
    # single vector == batch of one
    from ..engines.dim import fmt
    r1 = rets.get(("gmm.ll1", False))
    rb = rets.get(("gmm.ll", False))
    _one = (lambda v: v.copy(sh=tuple("N" if a == "1" else a for a in v.sh)) if v is not None and v.is_numlike and v.sh is not None else v)  # a batch of one: the sample axis has length 1
    R.check(r1 is not None and rb is not None and fmt(_one(r1)) == fmt(rb), "SHAPE.single", "gmm:log_likelihood", f"single vector -> {fmt(r1)}, batch -> {fmt(rb)}", "a single sample is scored as a batch of one", "a single vector is not scored like the same sample inside a batch (atleast_2d missing on this path)")
    # DEP: must-depend edges of the weighted log-likelihood
    f = P.func("gmm:log_weighted_likelihood")
    R.analysed(f)
    du = get_defuse(f, P)
    dp, mp = f.value_params[:2]
    for r in [x for x in walk_no_nested(f.node) if isinstance(x, ast.Return) and x.value is not None]:
        c = cone(du, r.value, r, interproc=True)
        R.check(dp in c.params, "DEP.lwl", f.key, "depends on the data", "", "the log-likelihood does not depend on the data", r.lineno)
        for a, names in (("means", ("means", "_means")), ("variances", ("variances", "_variances")), ("weights", ("_weights", "weights", "log_weights"))):
            R.check(c.has_attr(*names), "DEP.lwl", f.key, f"depends on the {a}", "", f"the weighted log-likelihood does not depend on the machine's {a}: it cannot be log(w_c N(x; mu_c, var_c))", r.lineno)
        pi = any(n.endswith(".pi") for n in c.names) or any(isinstance(v, float) and any(abs(v - k) < 1e-9 for k in (3.141592653589793, 6.283185307179586, 1.8378770664093453, 0.9189385332046727)) for v in c.consts)
        R.check(pi, "DEP.lwl-pi", f.key, "a pi-constant is in the cone of the result", "", "no pi-constant reaches the log-likelihood: the Gaussian normalisation constant is missing", r.lineno)
    # e_step goes through the same two kernels
    g = P.func("gmm:e_step")
    gdu = get_defuse(g, P)
    calls = {src(P.peel_call(c, g)[1]) for c in walk_no_nested(g.node) if isinstance(c, ast.Call)}
    R.check("log_weighted_likelihood" in calls and "reduce_loglikelihood" in calls, "SIBLING.e_step", g.key, "e_step uses log_weighted_likelihood and reduce_loglikelihood", "statistics and likelihood share the kernels", "the E-step does not compute its likelihoods with the same kernels as log_likelihood")
    cache.k1_who_may_write(P, R)
    cache.k2_variances_setter(P, R)
    cache.k2b_lazy_getter(P, R)
    cache.k3_weights_setter(P, R)
    cache.k4_thresholds_setter(P, R)
    cache.k5_no_inplace_through_getter(P, R)
    from ..engines import traps as _traps
    _traps.check(P, R, ['gmm'], scope='gmm:(log_weighted_likelihood|reduce_loglikelihood|logaddexp_reduce|GMMMachine\\.(log_likelihood|log_weighted_likelihood|variances|weights|variance_thresholds|g_norms|log_weights|means)\\b)')
    from ..engines import own as _oe2
    _own2 = _oe2.Own(P)
    for k_ in ("gmm:e_step", "gmm:log_weighted_likelihood", "gmm:reduce_loglikelihood", "gmm:log_likelihood"):
        _oe2.check_inplace_views(P, R, _own2, k_)

    # POL: signs, placement and the one-half of log w_c - 1/2 (g_c + sum (x - mu_c)^2 / var_c)
    from ..engines import pol as _pol
    _f = P.func("gmm:log_weighted_likelihood")
    _pp = _pol.Pol(P, _f, track_coef=True, track_inv=True)
    _terms = list(dict.fromkeys(_pp.value_terms()))
    _dp = _f.value_params[0]

    def _has(a, *suffixes):
        return any(x.split(".")[-1].lstrip("_") in suffixes for x in a)
    n_pol = 0
    for s_, a in _terms:
        base = {x[2:] if x.startswith("1/") else x for x in a if not x.startswith("#") and not x.startswith("1/#")}
        is_var = _has(base, "variances")
        is_mean = _has(base, "means")
        is_data = _dp in base
        label = _pol.fmt_terms([(s_, a)])
        if _has(base, "log_weights", "weights") and not is_var and not _has(base, "g_norms"):
            n_pol += 1
            R.check(s_ > 0 and abs(_pol.coef_value(a) - 1) < 1e-12, "POL.lwl", _f.key, f"log-weight term {label}", "+1 · log w_c", "the log-weights do not enter the weighted log-likelihood with coefficient +1")
        elif _has(base, "g_norms"):
            n_pol += 1
            R.check(s_ < 0 and abs(_pol.coef_value(a) - 0.5) < 1e-12, "POL.lwl", _f.key, f"normaliser term {label}", "-1/2 · g_c", "the Gaussian normaliser does not enter the weighted log-likelihood as -1/2 · g_c: the value is not the log of a normalised density")
        elif is_var:
            n_pol += 1
            inv = any(x.startswith("1/") and x.split(".")[-1].lstrip("_") == "variances" for x in a)
            want = 1 if (is_data and is_mean) else -1
            R.check(inv and s_ == want and abs(_pol.coef_value(a) - 0.5) < 1e-12, "POL.lwl", _f.key, f"quadratic-form term {label}", "-1/2 · (x - mu)^2 / var expanded", "the Mahalanobis term does not enter the weighted log-likelihood as -1/2 · (x - mu)^2 / var")
    R.floor("POL.lwl terms", n_pol, 5)
    from ..engines import proto as _prd
    for k_ in ('gmm:log_weighted_likelihood', 'gmm:reduce_loglikelihood', 'gmm:log_likelihood'):
        _prd.check_return_deps(P, R, k_, pattern=r'^(data|machine|log_weighted_likelihoods)$')
    from ..engines import proto as _prs
    _prs.check_reduction_siblings(P, R, ['gmm'])
    from ..engines import cover as _cvl
    _cvl.check_lse_functions(P, R, ['gmm'])

    # a single vector gives a (components, 1) column: one sample, whatever the number of components
    _o1, _r1 = dimrun.run_roots(P, ["gmm.lwl1"])
    _v1 = _r1.get(("gmm.lwl1", None))
    okc = _v1 is not None and _v1.is_numlike and _v1.sh is not None and len(_v1.sh) == 2 and _v1.sh[0] == "C" and _v1.sh[1] in ("1", "N")
    if _v1 is None or not _v1.is_numlike or _v1.sh is None:
        okc = True  # no shape could be inferred for a 1-D argument (e.g. it is indexed as 2-D, which raises): nothing silent to report
    R.check(okc, "SHAPE.single-lwl", "gmm:log_weighted_likelihood", f"single vector -> {fmt(_v1) if _v1 is not None else None}", "(components, 1)", "for a single feature vector the per-component log-likelihoods are not a (components, 1) column: they broadcast against the per-component normalisers into a (components, components) table")


EXPLANATION += " Also (POL): the return value of log_weighted_likelihood is expanded into signed monomials; the log-weights enter with +1, the cached normaliser with -1/2, the quadratic form as -1/2 (x - mu)^2 / var (x^2 and mu^2 negative, the cross term positive, the variance in the denominator)."
