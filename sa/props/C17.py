"""C17 — a GMM's likelihood reflects its current visible parameters, whatever its history."""
from ..engines import cache

EXPLANATION = (
    "Decides the cache-coherence typestate of GMMMachine for every history of public operations at once: "
    "(K1) the private fields _weights/_log_weights/_means/_variances/_g_norms/_variance_thresholds are stored only by "
    "their setter, the lazy getter and __init__, anywhere in the package; (K2) the variances setter stores a floor clamp "
    "of the assigned value against the thresholds and every path to its exit refreshes (or resets) the normaliser from the "
    "clamped value; (K3) the weights setter pairs _weights with log(_weights); (K4) the floors setter re-assigns existing "
    "variances through the setter after storing the floors; (K5) no element store / out= / aliased in-place operation on "
    "an array obtained from a GMM getter; (K6) load replaces the whole state; (K7) no pickling/copy hook separates a "
    "cache from its source. These are the necessary and (for this class design) sufficient structural conditions of "
    "'no stale normaliser, log-weight or floor survives an update'; nothing numeric is decided."
)
ASSUMPTIONS = [
    "np.maximum/np.clip/np.where/np.log behave as documented (library model)",
    "default pickle/deepcopy copy __dict__ wholesale",
    "attribute names in the private-field table are specific to GMMMachine (receivers of a known other class are skipped)",
]


def run(P, R, tier):
    cache.run_all(P, R)
    from ..engines import memo, own as owneng
    memo.check_class(P, R, owneng.Own(P), "GMMMachine")
    from ..engines import traps as _traps
    _traps.check(P, R, ['gmm'], scope='gmm:GMMMachine\\.(variances|weights|variance_thresholds|g_norms|log_weights|means|fit|__init__|initialize_gaussians)\\b')
    # floors before variances wherever both are assigned on one object (constructors, load, copies, hand-overs)
    from .C18 import check_setter_order as _cso
    for f_ in P.all_funcs(["gmm"]):
        _cso(P, R, f_, f_.node.body, "setter order", "ORDER.floors-first")
