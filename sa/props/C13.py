"""C13 — trained models are valid: finite, weights on the simplex, variances above floors."""
from __future__ import annotations

import ast

from ..cfg import EXIT
from ..dataflow import cone, get_defuse, stores
from ..engines import cache, dimrun, guard
from ..frontend import const_value, src, walk_no_nested

EXPLANATION = (
    "Decides for every data set at once the structural guards that keep trained parameters finite and valid: (GUARD.div) every "
    "division in gmm.py, kmeans.py, ivector.py and linear_scoring.py is classified by the abstract type and provenance of its "
    "denominator (engine DIM: a per-component count is a pure, extensive quantity with a component axis); a count denominator must be "
    "floored (np.clip / np.where / np.maximum / + positive configuration scalar) or its quotient only consumed as the non-selected arm "
    "of np.where on the same count test; data sizes, variances (>= floor by the clamp), own sums and constants are safe by "
    "precondition; (CACHE) GMM variances are only ever stored through the floor clamp (C17 K1/K2/K4); (G-floor) the i-vector covariance "
    "clamp follows the covariance update on every path; ML weights are count/total with the floored count, MAP weights are "
    "renormalised by their own sum. Overflow and NaN entering through non-finite data are not decided."
)
ASSUMPTIONS = ["precondition: finite, non-empty training data (data sizes are positive)", "DIM declared types (sa/tables/dim_types.py)"]

ROOTS = ["gmm.ml", "gmm.map.reynolds", "gmm.map.alpha", "gmm.m_step", "gmm.fit", "gmm.init", "km.fit", "km.varw", "iv.e_step", "iv.m_step", "iv.project", "ls.norm", "ls.raw", "gmm.lwl", "gmm.set.variances"]
MODULES = ("gmm", "kmeans", "ivector", "linear_scoring")


def check_sigma_floor(P, R):
    f = P.func("ivector:m_step")
    R.analysed(f)
    du = get_defuse(f, P)
    mp = f.value_params[0]
    sig = [st for st, t, v, k in stores(f) if isinstance(t, ast.Attribute) and t.attr == "sigma" and isinstance(t.value, ast.Name) and t.value.id == mp]
    clamps = []
    for st, t, v, k in stores(f):
        if isinstance(t, ast.Subscript) and isinstance(t.value, ast.Attribute) and t.value.attr == "sigma":
            c = cone(du, t.slice, du.stmt_of(st), interproc=False)
            vc = cone(du, v, du.stmt_of(st), interproc=False)
            if c.has_attr("variance_floor") and vc.has_attr("variance_floor") and any(isinstance(n, ast.Compare) and isinstance(n.ops[0], (ast.Lt, ast.LtE)) for n in c.nodes):
                clamps.append(du.stmt_of(st))
    for st, t, v, k in stores(f):
        if isinstance(t, ast.Attribute) and t.attr == "sigma" and isinstance(v, ast.Call) and src(v.func).split(".")[-1] in ("maximum", "clip", "fmax"):
            vc = cone(du, v, du.stmt_of(st), interproc=False)
            if vc.has_attr("variance_floor"):
                clamps.append(du.stmt_of(st))
    # the clamp in a helper of the package: `floor_in_place(machine.sigma, machine.variance_floor)` whose body stores the floor
    # parameter into the elements of the array parameter that compare below it (or returns / stores maximum(array, floor))
    for cnode in [x for x in walk_no_nested(f.node) if isinstance(x, ast.Call)]:
        try:
            kind_, fexpr_, args_, kws_ = P.peel_call(cnode, f)
            tg_ = [t_[1] for t_ in P.resolve_callee(fexpr_, f) if t_[0] == "repo"]
        except Exception:
            tg_ = []
        for callee in tg_[:1]:
            b_ = P.bind_args(callee, args_, kws_)
            arr_p = [p_ for p_, a_ in b_.items() if isinstance(a_, ast.Attribute) and a_.attr == "sigma" and isinstance(a_.value, ast.Name) and a_.value.id == mp]
            flo_p = [p_ for p_, a_ in b_.items() if a_ is not None and any(isinstance(y, ast.Attribute) and y.attr == "variance_floor" for y in ast.walk(a_))]
            if not arr_p or not flo_p:
                continue
            cdu = get_defuse(callee, P)
            for cs, ct, cv, ck in stores(callee):
                if isinstance(ct, ast.Subscript) and isinstance(ct.value, ast.Name) and ct.value.id == arr_p[0] and ck == "assign":
                    ic = cone(cdu, ct.slice, cdu.stmt_of(cs), interproc=False)
                    vc = cone(cdu, cv, cdu.stmt_of(cs), interproc=False)
                    below = any(isinstance(n_, ast.Compare) and len(n_.ops) == 1 and ((isinstance(n_.ops[0], (ast.Lt, ast.LtE)) and isinstance(n_.left, ast.Name) and n_.left.id == arr_p[0]) or (isinstance(n_.ops[0], (ast.Gt, ast.GtE)) and isinstance(n_.comparators[0], ast.Name) and n_.comparators[0].id == arr_p[0])) for n_ in ic.nodes)
                    if below and flo_p[0] in ic.params and flo_p[0] in vc.params:
                        clamps.append(du.stmt_of(cnode))
    if not sig:
        R.note("ivector:m_step does not update sigma")
        return
    for st in sig:
        if st in clamps:
            R.ok("GUARD.floor", f.key, src(st)[:60], "stored through a clamp", st.lineno)
            continue
        ok = du.cfg.must_pass_before_exit(st, [c for c in clamps if du.cfg.reach_avoiding(st, c)])
        R.check(ok, "GUARD.floor", f.key, src(st)[:60], "followed on every path by the floor clamp", "the updated covariances are not clamped to variance_floor afterwards (clamp missing or before the update)", st.lineno)
    # zero-matrix guard of the per-component solve
    solves = [c for c in walk_no_nested(f.node) if isinstance(c, ast.Call) and src(c.func).split(".")[-1] in ("solve", "inv")]
    from ..dataflow import cone as _cone13
    for c in solves:
        # the matrix that is solved / inverted, and the array it is an element of
        a0 = c.args[0] if c.args else None
        base = a0
        while isinstance(base, ast.Subscript):
            base = base.value
        bname = base.id if isinstance(base, ast.Name) else None

        def nonzero_test(e, st_, selects=False):
            """`e` derives from a test that the (per-component) matrix has a non-zero entry: .any() / count_nonzero / != 0 on it;
            selects=True: `e` must moreover be a *selection of indices* by that test (flatnonzero / nonzero / where / a mask
            subscript), not just any quantity computed from the mask (its length)"""
            cn = _cone13(du, e, st_, interproc=False)
            if selects and not any(isinstance(x, ast.Call) and (x.func.attr if isinstance(x.func, ast.Attribute) else getattr(x.func, "id", "")) in ("flatnonzero", "nonzero", "where", "argwhere", "compress") for x in cn.nodes) and not any(isinstance(x, ast.Subscript) and isinstance(x.value, ast.Call) and src(x.value.func).split(".")[-1] == "arange" for x in cn.nodes):
                return False
            for x in cn.nodes:
                if isinstance(x, ast.Call) and isinstance(x.func, ast.Attribute) and x.func.attr in ("any", "count_nonzero", "nonzero", "flatnonzero"):
                    recv = x.func.value if x.func.attr == "any" and not (isinstance(x.func.value, ast.Name) and x.func.value.id in ("np", "numpy")) else (x.args[0] if x.args else None)
                    if recv is not None and bname is not None and bname in {y.id for y in ast.walk(recv) if isinstance(y, ast.Name)}:
                        return True
                    if recv is not None and bname is not None:
                        rc = _cone13(du, recv, st_, interproc=False)
                        if bname in {y.id for y in rc.nodes if isinstance(y, ast.Name)} or bname in {d.var for d in rc.defs}:
                            return True
            return False
        guarded = False
        st_c = du.stmt_of(c)
        p = getattr(c, "_parent", None)
        while p is not None and not isinstance(p, ast.FunctionDef):
            if isinstance(p, (ast.ListComp, ast.GeneratorExp)):
                for g in p.generators:
                    if any(nonzero_test(i, st_c) for i in g.ifs):
                        guarded = True  # [solve(A[c]) for c in ... if A[c].any()]
                    if nonzero_test(g.iter, st_c, selects=True):
                        guarded = True  # for c in np.flatnonzero(mask)
            if isinstance(p, ast.For) and nonzero_test(p.iter, p, selects=True):
                guarded = True
            if isinstance(p, ast.If) and isinstance(a0, ast.Subscript):
                # a test on this very component: if A[c].any(): solve(A[c])
                if any(isinstance(x, ast.Call) and isinstance(x.func, ast.Attribute) and x.func.attr == "any" and src(x.func.value) == src(a0) for x in ast.walk(p.test)) and any(st_c is y or st_c in list(ast.walk(y)) for y in p.body):
                    guarded = True
            p = getattr(p, "_parent", None)
        # masked selection: solve(A[mask], B[mask]) with mask = A.any(...)
        if not guarded and isinstance(a0, ast.Subscript) and not isinstance(a0.slice, (ast.Constant, ast.Slice)) and nonzero_test(a0.slice, st_c):
            idx_is_loopvar = isinstance(a0.slice, ast.Name) and any(isinstance(q, (ast.For, ast.comprehension)) and isinstance(q.target, ast.Name) and q.target.id == a0.slice.id for q in ast.walk(f.node))
            if not idx_is_loopvar or True:
                guarded = True
        R.check(guarded, "GUARD.zero-matrix", f.key, src(c)[:50], "only solved for non-zero A[c]", "the per-component linear solve is no longer guarded against an all-zero matrix (singular-matrix error / NaN for a component without data)", c.lineno)


def check_weights(P, R):
    f = P.func("gmm:map_gmm_m_step")
    du = get_defuse(f, P)
    mp = f.value_params[0]
    renorm = False
    for st, t, v, k in stores(f):
        if isinstance(t, ast.Attribute) and t.attr == "weights" and k == "aug" and isinstance(st.op, ast.Div):
            c = cone(du, v, du.stmt_of(st), interproc=False)
            renorm = c.has_attr("weights") and (c.calls_any("sum") or any(x.endswith("sum") for x in c.calls))
        if isinstance(t, ast.Attribute) and t.attr == "weights" and k == "assign" and isinstance(v, ast.BinOp) and isinstance(v.op, ast.Div):
            c = cone(du, v.right, du.stmt_of(st), interproc=False)
            if c.calls_any("sum") or any(x.endswith("sum") for x in c.calls):
                renorm = True
    R.check(renorm, "SIMPLEX.map", f.key, "weights /= weights.sum()", "adapted weights renormalised to sum to one", "MAP-adapted weights are not renormalised by their own sum: they leave the simplex")


def check_initial_weights(P, R):
    """The default mixture weights of a new machine are uniform: n entries of 1/n (they sum to one before any training)."""
    f = P.func("gmm:GMMMachine.__init__")
    R.analysed(f)
    n = 0
    for st, t, v, k in stores(f):
        if not (isinstance(t, ast.Attribute) and t.attr == "weights" and isinstance(t.value, ast.Name) and t.value.id == f.self_name and isinstance(v, ast.Call)):
            continue
        fn = src(v.func).split(".")[-1]
        if fn not in ("full", "ones", "full_like"):
            continue
        n += 1
        if fn == "full":
            fill = next((kw.value for kw in v.keywords if kw.arg == "fill_value"), v.args[1] if len(v.args) > 1 else None)
            shape = v.args[0] if v.args else next((kw.value for kw in v.keywords if kw.arg == "shape"), None)
            cnt = shape.elts[0] if isinstance(shape, ast.Tuple) and len(shape.elts) == 1 else shape
            ok = isinstance(fill, ast.BinOp) and isinstance(fill.op, ast.Div) and const_value(fill.left) in (1, 1.0) and cnt is not None and src(fill.right) == src(cnt)
            R.check(ok, "SIMPLEX.init", f.key, src(v)[:70], "n weights of 1/n", f"the default weights are {src(v)[:60]}: {src(cnt) if cnt is not None else '?'} entries of {src(fill) if fill is not None else '?'} do not sum to one", st.lineno)
        else:
            R.undecided("SIMPLEX.init", f.key, src(v)[:70], "default weights not in the recognised uniform form np.full((n,), 1 / n)")
    R.floor("SIMPLEX.init default-weight stores", n, 1)


def run(P, R, tier):
    check_initial_weights(P, R)
    n = guard.check_divisions(P, R, ROOTS, MODULES)
    R.floor("GUARD.div sites", n, 20)
    # weights on the simplex: count/total (pure, intensive) in the ML step, renormalised blend in the MAP step
    dimrun.route(P, R, ["gmm.ml", "gmm.map.reynolds", "gmm.map.alpha", "gmm.init", "km.varw"], rules=["EXT.D2", "DIM.D2", "EXT.D1"], where_prefix=["gmm:ml_gmm_m_step", "gmm:map_gmm_m_step", "gmm:GMMMachine.initialize_gaussians", "kmeans:reduce_indices_means_vars"])
    cache.k1_who_may_write(P, R)
    cache.k2_variances_setter(P, R)
    cache.k4_thresholds_setter(P, R)
    check_sigma_floor(P, R)
    check_weights(P, R)
    from ..engines import traps as _traps
    _traps.check(P, R, ['gmm', 'kmeans', 'ivector'], scope='(gmm:(ml_gmm_m_step|map_gmm_m_step|GMMMachine\\.(variances|weights|variance_thresholds|__init__)\\b)|kmeans:(m_step|reduce_indices_means_vars|accumulate_indices_means_vars|e_step)|ivector:m_step)')
    from .C05 import check_blend as _cb13
    _cb13(P, R)  # the no-evidence fallbacks of the MAP update (a component without data keeps the prior's value: no 0/0)


EXPLANATION += ' Also: (SIMPLEX.init) the default weights of a new machine are n entries of 1/n; G4 accepts only configuration scalars as count floors.'
EXPLANATION += ' A listed unguarded division absorbs its alternatives in mutually exclusive arms (in-place and allocating spelling of one quotient).'
