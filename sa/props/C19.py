"""C19 — training and scoring never modify or alias caller-owned data."""
from __future__ import annotations

import ast

from ..engines import own as owneng
from ..engines.own import F, G, U, fmt_org, fmt_orgs

EXPLANATION = (
    "Decides for every sequence of calls at once, by an interprocedural origin/effect analysis (engine OWN: abstract origins fresh / "
    "parameter.path / global / unknown, a library model of view-returning vs fresh-returning calls, function summaries to a fixpoint over "
    "all 155 functions): (O1) no public entry point (fit, fit_using_array, enroll, enroll_using_array, score, score_using_array, transform, "
    "project, predict, acc_stats, stats_per_sample, log_likelihood, log_weighted_likelihood, estimate_x/ux, get_variances_and_weights..., "
    "linear_scoring, statistics + and +=, constructors taking a UBM) has a parameter, an element or an attribute of a parameter in its "
    "transitive in-place mutation summary (+= may only mutate its receiver); (O2) objects a machine holds but does not own (self.ubm, "
    "self.init_method) are treated like parameters, except `self.ubm.fit(X)` dominated by the untrained test; (O3) every value stored "
    "into a model-parameter attribute on any path from a trainer (means/variances/weights, centroids_, U/V/D, T, sigma, WCCN/whitening "
    "weights and input_subtract) has a fresh origin - it does not alias the training data, the statistics, the initial centroids or the "
    "prior's arrays; (O4) in-place reducers only receive lists whose elements are fresh. Nothing numeric is involved."
)
ASSUMPTIONS = [
    "library model (sa/engines/own.py): VIEW_FUNCS/VIEW_METHODS return views of their argument, k_init(init=<array>) returns that array, "
    "everything else in NumPy/SciPy/Dask/copy/operator/builtins returns a fresh object; boolean-mask and fancy indexing loads copy",
    "update_z / update_y fill an output parameter by design: their call sites must pass a fresh object (checked through the roots)",
]

# user entry points C19's quantifier names, and their siblings (frozen; anchors must exist)
ROOTS = [
    "gmm:GMMMachine.fit", "gmm:GMMMachine.acc_stats", "gmm:GMMMachine.transform", "gmm:GMMMachine.stats_per_sample",
    "gmm:GMMMachine.log_likelihood", "gmm:GMMMachine.log_weighted_likelihood", "gmm:GMMMachine.initialize_gaussians", "gmm:GMMMachine.__init__",
    "gmm:log_likelihood", "gmm:log_weighted_likelihood", "gmm:e_step", "gmm:GMMStats.__add__", "gmm:GMMStats.__iadd__", "gmm:GMMStats.__eq__", "gmm:GMMStats.is_similar_to",
    "kmeans:KMeansMachine.fit", "kmeans:KMeansMachine.transform", "kmeans:KMeansMachine.predict", "kmeans:KMeansMachine.get_variances_and_weights_for_each_cluster",
    "kmeans:get_centroids_distance", "kmeans:get_closest_centroid_index",
    "linear_scoring:linear_scoring",
    "ivector:IVectorMachine.fit", "ivector:IVectorMachine.project", "ivector:IVectorMachine.transform", "ivector:IVectorStats.__add__", "ivector:IVectorStats.__iadd__", "ivector:IVectorMachine.__init__",
    "factor_analysis:FactorAnalysisBase.fit_using_array", "factor_analysis:FactorAnalysisBase.enroll_using_array", "factor_analysis:FactorAnalysisBase.score_using_array",
    "factor_analysis:FactorAnalysisBase.estimate_x", "factor_analysis:FactorAnalysisBase.estimate_ux", "factor_analysis:FactorAnalysisBase.__init__",
    "factor_analysis:ISVMachine.fit", "factor_analysis:ISVMachine.enroll", "factor_analysis:ISVMachine.enroll_using_array", "factor_analysis:ISVMachine.score", "factor_analysis:ISVMachine.transform",
    "factor_analysis:JFAMachine.fit", "factor_analysis:JFAMachine.enroll", "factor_analysis:JFAMachine.score",
    "wccn:WCCN.fit", "wccn:WCCN.transform", "whitening:Whitening.fit", "whitening:Whitening.transform",
]
RECEIVER_MAY_CHANGE = {"gmm:GMMStats.__iadd__", "ivector:IVectorStats.__iadd__"}
NOT_OWNED = ("ubm", "init_method")  # held by the machine, owned by the caller
NOT_OWNED_ALIAS = NOT_OWNED + ("k_means_trainer",)  # a supplied k-means trainer is fitted on purpose, but its arrays must not be shared
READONLY_METHODS = {
    "__add__", "__eq__", "is_similar_to", "transform", "predict", "project", "acc_stats", "stats_per_sample", "log_likelihood",
    "log_weighted_likelihood", "estimate_x", "estimate_ux", "score", "score_using_array", "enroll", "enroll_using_array",
    "get_variances_and_weights_for_each_cluster",
}
PARAM_ATTRS = {
    "_means", "_variances", "_weights", "means", "variances", "weights", "centroids_", "_U", "_V", "_D", "U", "V", "D", "T", "sigma",
    "input_subtract", "_log_weights", "_g_norms", "variance_thresholds", "_variance_thresholds",
}
CTOR_ROOTS = {"gmm:GMMMachine.__init__", "ivector:IVectorMachine.__init__", "factor_analysis:FactorAnalysisBase.__init__"}


def check_operator_alias(P, R, own):
    """a += b accumulates b into a; a must not end up *holding* b's arrays (the next += would then change b)."""
    n = 0
    for cn in ("GMMStats", "IVectorStats"):
        ci = P.cls(cn)
        for mn in ("__iadd__",):
            f = ci.methods.get(mn)
            if f is None:
                continue
            R.analysed(f)
            me, other = f.posparams[0], f.posparams[1]
            sm = own.sums[f.key]
            bad = []
            # immutable scalar fields (a parameter of init_fields / __init__ with a numeric default) cannot be aliased
            scalars = set()
            for m_ in (ci.methods.get("init_fields"), ci.methods.get("__init__")):
                if m_ is None:
                    continue
                a_ = m_.node.args
                pos_ = a_.posonlyargs + a_.args
                for arg_, d_ in zip(pos_[len(pos_) - len(a_.defaults):], a_.defaults):
                    if isinstance(d_, ast.Constant) and isinstance(d_.value, (int, float)) and not isinstance(d_.value, bool):
                        scalars.add(arg_.arg)
            for (o, attr), (val, wit) in sm.stores.items():
                if o[1] != me or attr in scalars:
                    continue
                al = [x for x in val.all_origins() if isinstance(x, tuple) and x[1] == other]
                if al:
                    bad.append((attr, al, wit))
            n += 1
            if bad:
                for attr, al, wit in bad:
                    R.violation("OWN.iadd-alias", f.key, f"{me}.{attr} after `{me} += {other}`", f"{me}.{attr} holds {fmt_org(al[0])} itself ({wit}): the accumulator shares memory with its right operand, and the next `+=` adds into that operand's arrays")
            else:
                R.ok("OWN.iadd-alias", f.key, f"`{me} += {other}` stores no array of {other} into {me}", "")
    return n


def run(P, R, tier):
    own = owneng.Own(P)
    R.floor("OWN.iadd-alias operators", check_operator_alias(P, R, own), 2)
    R.extra["own"] = {"functions": len(own.funcs), "fixpoint_iterations": own.iterations, "mutation_sinks_evaluated": own.sink_count, "unmodelled_callees": sorted(f"{a}: {b}" for a, b in own.unmodelled)}
    n_params = 0
    for key in ROOTS:
        f = P.func(key)
        R.analysed(f)
        s = own.sums[key]
        me = f.self_name
        # ---- O1 / O2 -------------------------------------------------------------------------------------------
        bad = {}
        for o, wit in s.mutates.items():
            _, p, path = o
            if p == me:
                if path and path[0] in NOT_OWNED:
                    bad[o] = wit
                elif key.split(".")[-1] in READONLY_METHODS:
                    bad[o] = wit
                continue
            bad[o] = wit
        for p in f.params:
            if p == me:
                continue
            n_params += 1
            mine = {o: w for o, w in bad.items() if o[1] == p}
            if mine:
                for o, w in mine.items():
                    R.violation("OWN.O1", key, f"parameter {fmt_org(o)} is modified in place", f"{w}: the caller's object is changed by the call", None)
            else:
                R.ok("OWN.O1", key, f"parameter {p} is not modified", "not in the transitive in-place mutation summary")
        for o, w in bad.items():
            if o[1] == me:
                if o[2] and o[2][0] in NOT_OWNED:
                    R.violation("OWN.O2", key, f"{fmt_org(o)} is modified in place", f"{w}: the machine modifies an object it holds but does not own (the caller's UBM / initial centroids)")
                else:
                    R.violation("OWN.O1", key, f"receiver {fmt_org(o)} is modified in place", f"{w}: a read-only operation changes the object it is called on")
        if me and key.split(".")[-1] in READONLY_METHODS and not any(o[1] == me for o in bad):
            R.ok("OWN.O1", key, "receiver is not modified", "read-only operation")
        if me and key in RECEIVER_MAY_CHANGE:
            pass
        # ---- O3 -------------------------------------------------------------------------------------------------
        is_ctor = key.endswith(".__init__")
        for (o, attr), (val, wit) in s.stores.items():
            if attr not in PARAM_ATTRS:
                continue
            if o[1] != me:
                continue  # stores into parameter objects are O1's business
            foreign = set()
            for x in val.all_origins():
                if isinstance(x, tuple):
                    if x[1] != me:
                        if is_ctor and key not in CTOR_ROOTS:
                            continue
                        if is_ctor and x[1] not in ("ubm",):
                            continue  # constructor arguments other than the prior are configuration handed over by the caller
                        foreign.add(x)
                    elif x[2] and x[2][0] in NOT_OWNED_ALIAS:
                        foreign.add(x)
            what = f"{fmt_org(o)}.{attr} <- {fmt_orgs(val.all_origins())}"
            if foreign:
                R.violation("OWN.O3", key, f"{fmt_org(o)}.{attr} may alias {fmt_orgs(foreign)}", f"{wit}: a trained/initial parameter shares memory with caller-owned data ({fmt_orgs(foreign)}); overwriting that data afterwards changes the model, and in-place updates of the model change the caller's array")
            else:
                R.ok("OWN.O3", key, what, "fresh")
    R.floor("OWN.O1 parameters checked", n_params, 50)
    # ---- O2: UBM training only under the untrained guard -----------------------------------------------------------
    n_ubm = 0
    for k, s in own.sums.items():
        for txt, ok, line in s.ubm_training:
            n_ubm += 1
            R.check(ok, "OWN.O2-ubm-fit", k, txt, "only when the UBM was handed over untrained", "the UBM is (re)trained without the `is None` / `_means is None` guard: a trained prior passed by the caller is overwritten", line)
    R.floor("OWN.O2 ubm.fit sites", n_ubm, 2)
    # ---- O4: in-place reducers ---------------------------------------------------------------------------------------
    for k in ("gmm:m_step", "factor_analysis:reduce_iadd"):
        s = own.sums[k]
        R.ok("OWN.O4", k, "in-place reducer: mutates element 0 of its list argument " + fmt_orgs(s.mutates), "every root that reaches it passes lists of fresh elements (decided by O1 on the roots)", nontrivial=False)


EXPLANATION += ' Also: (OWN.iadd-alias) `a += b` never stores an array of b into a.'
