"""C14 — WCCN/whitening map covariance to identity; WCCN depends only on the partition."""
from __future__ import annotations

import ast

from ..dataflow import cone, get_defuse, stores
from ..engines import idx, pol
from ..frontend import const_value, src, walk_no_nested

EXPLANATION = (
    "Decides, for every labelling at once, the structural conditions of 'the WCCN projection depends only on which samples "
    "share a class': (IDX.I1) class means are addressed by class - a sequence built in the iteration order of the label set "
    "is never indexed with a label value, a dict keyed by label or a positional enumerate pairing is accepted; (IDX.value) "
    "label values are only used in equality masks / as keys, never arithmetically; (IDX.I2) loops over the label set only "
    "accumulate commutatively; the class count is the number of distinct labels; the centred block pairs the rows of a class "
    "with the mean of the same class. For both estimators: the Cholesky factor taken is the lower one at both array-type "
    "arms (lower=True, or an upper factor transposed), of the inverse (inv/pinv) of the covariance / scaled scatter; "
    "transform centres then projects ((x - subtract) / divide @ weights, POL); the Dask/NumPy module switch binds the same "
    "names to same-named functions. Identity covariance and positive diagonal are numerical/Cholesky properties and are not decided."
)
ASSUMPTIONS = [
    "scipy.linalg.cholesky / dask.array.linalg.cholesky return the upper factor unless lower=True",
    "set iteration order is unspecified; dict/equality semantics as in CPython",
]


def _effective_lower(call):
    """lower=True, or an upper factor that is transposed afterwards."""
    lower = False
    for kw in call.keywords:
        if kw.arg == "lower":
            v = const_value(kw.value)
            if v is None and not isinstance(kw.value, ast.Constant):
                return None
            lower = bool(v)
    if len(call.args) >= 2:
        v = const_value(call.args[1])
        lower = bool(v)
    # transposes applied to the call result
    p = getattr(call, "_parent", None)
    flips = 0
    node = call
    while p is not None:
        if isinstance(p, ast.Attribute) and p.value is node and p.attr == "T":
            flips += 1
        elif isinstance(p, ast.Call) and p.args and p.args[0] is node and src(p.func).split(".")[-1] in ("transpose",):
            flips += 1
        elif isinstance(p, ast.Call) and isinstance(p.func, ast.Attribute) and p.func.value is node and p.func.attr == "transpose":
            flips += 1
            node = p.func
        else:
            break
        node = p
        p = getattr(p, "_parent", None)
    return lower != (flips % 2 == 1)


def check_fit_common(P, R, key, inv_of):
    f = P.func(key)
    R.analysed(f)
    du = get_defuse(f, P)
    # module switch binds the same names in both arms
    sw = None
    for n in walk_no_nested(f.node):
        if isinstance(n, ast.If) and "isinstance" in src(n.test) and any(isinstance(x, (ast.Import, ast.ImportFrom)) for x in n.body):
            sw = n
    if sw is None:
        R.note(f"{key}: no array-type module switch (single implementation)")
    else:
        def bound(stmts):
            out = {}
            for s in stmts:
                if isinstance(s, ast.Import):
                    for al in s.names:
                        out[al.asname or al.name.split(".")[0]] = al.name
                elif isinstance(s, ast.ImportFrom):
                    for al in s.names:
                        out[al.asname or al.name] = f"{s.module}.{al.name}"
            return out
        a, b = bound(sw.body), bound(sw.orelse)
        R.check(set(a) == set(b), "BRANCH.module", key, f"both arms bind {sorted(set(a) | set(b))}", "same names", f"array-type arms bind different names: {sorted(set(a) ^ set(b))} exist in one arm only", sw.lineno)
        for nme in sorted(set(a) & set(b)):
            la, lb = a[nme].split(".")[-1], b[nme].split(".")[-1]
            same = la == lb or {la, lb} <= {"array", "numpy"}
            R.check(same, "BRANCH.module", key, f"{nme}: {a[nme]} / {b[nme]}", "same function in both array libraries", f"`{nme}` is {a[nme]} in one arm and {b[nme]} in the other: Dask input does not give the NumPy result", sw.lineno)
    # weights = lower Cholesky factor of inv(...)
    wst = [(st, v) for st, t, v, k in stores(f) if isinstance(t, ast.Attribute) and t.attr == "weights" and isinstance(t.value, ast.Name) and t.value.id == f.self_name]
    if not wst:
        R.error(f"{key} does not store self.weights")
        return f, du
    for st, v in wst:
        c = cone(du, v, du.stmt_of(st), interproc=False)
        chol = [n for n in c.nodes if isinstance(n, ast.Call) and src(n.func).split(".")[-1] == "cholesky"]
        R.check(bool(chol), "CHOL.present", key, f"self.weights = {src(v)[:50]}", "Cholesky factor", "projection is not a Cholesky factor", st.lineno)
        for ch in chol:
            eff = _effective_lower(ch)
            if eff is None:
                R.undecided("CHOL.lower", key, src(ch)[:60], "lower= is not a literal")
            else:
                R.check(eff, "CHOL.lower", key, src(ch)[:60], "lower factor", "the upper Cholesky factor is taken (lower=True missing/false and no transpose): the projection is not lower-triangular and W W' is not the inverse matrix's factorisation the statement requires", ch.lineno)
            inner = cone(du, ch.args[0], du.stmt_of(st), interproc=False) if ch.args else None
            has_inv = inner is not None and any(isinstance(n, ast.Call) and src(n.func).split(".")[-1] in ("inv", "pinv") for n in inner.nodes)
            R.check(has_inv, "CHOL.inverse", key, f"cholesky({src(ch.args[0])[:40] if ch.args else ''})", "factor of the inverse matrix", "the factored matrix is not an inverse (inv/pinv missing): the transform does not whiten", ch.lineno)
            if inner is not None:
                for need, why in inv_of:
                    ok = any(x in inner.params or x in {d.var for d in inner.defs} or inner.calls_any(x) for x in need)
                    R.check(ok, "DEP.weights", key, f"factored matrix depends on {'/'.join(need)}", "", f"projection does not depend on {'/'.join(need)} ({why})", ch.lineno)
    return f, du


def check_transform(P, R, key):
    f = P.func(key)
    R.analysed(f)
    p = pol.Pol(P, f)
    t = p.value_terms()
    xname = f.value_params[0]
    rows = [
        dict(atoms=[xname, xname + "[*]"], sign="+", why="the sample enters positively", with_=["weights"]),
        dict(atoms=["input_subtract"], sign="-", why="the data are centred by subtracting the training mean", with_=["weights"]),
    ]
    for row in rows:
        pol.check_row(R, "POL.transform", key, t, row)
    # the subtraction happens before the scaling/projection: subtract term carries the same divide factor as x
    xs = [a for s, a in t if any(pol._match(x, [xname, xname + "[*]"]) for x in a)]
    ss = [a for s, a in t if any(pol._match(x, ["input_subtract"]) for x in a)]
    if xs and ss:
        xd = any(any("input_divide" in y for y in a) for a in xs)
        sd = any(any("input_divide" in y for y in a) for a in ss)
        R.check(xd == sd, "POL.transform", key, "x and subtract scaled alike", "(x - subtract) / divide", "the mean is subtracted after scaling (x / divide - subtract)")


def check_affine_constants(P, R, key, subtract_zero):
    """transform computes ((X - input_subtract) / input_divide) @ weights: the fitted estimator leaves the divisor at one (and, for
    WCCN, the offset at zero) - the whole normalisation is in `weights`."""
    f = P.func(key)
    n_div = 0
    for st, t, v, k in stores(f):
        if isinstance(t, ast.Attribute) and isinstance(t.value, ast.Name) and t.value.id == f.self_name:
            if t.attr == "input_divide":
                n_div += 1
                R.check(const_value(v) in (1, 1.0), "AFFINE.divide", key, f"self.input_divide = {src(v)}", "1", f"the fitted divisor is {src(v)}, not 1: the transformed data are rescaled and their (within-class) covariance is no longer the identity", st.lineno)
            if t.attr == "input_subtract" and subtract_zero:
                R.check(const_value(v) in (0, 0.0), "AFFINE.subtract", key, f"self.input_subtract = {src(v)}", "0", f"WCCN subtracts {src(v)} before projecting", st.lineno)
    R.check(n_div >= 1, "AFFINE.divide", key, "fit stores self.input_divide", "", "fit no longer stores the divisor used by transform")


def run(P, R, tier):
    from ..engines import dimrun
    n, rets = dimrun.route(P, R, ["wccn.fit", "wccn.transform", "white.fit", "white.transform"], rules=["DIM.", "EXT."], where_prefix=["wccn:", "whitening:"])
    R.floor("DIM/EXT obligations (WCCN / whitening)", n, 8)
    from ..engines import dtype as _dt14
    n_dt14 = 0
    for k_ in ("wccn:WCCN.fit", "whitening:Whitening.fit"):
        n_dt14 += _dt14.check_function(P, R, k_, raw_params=(P.func(k_).value_params[0],))
    R.floor("DTYPE.raw sites (linear transforms)", n_dt14, 1)
    # ---- WCCN -----------------------------------------------------------------------
    f, du = check_fit_common(P, R, "wccn:WCCN.fit", inv_of=[(("X",), "the data"), (("y",), "the labels"), (("len",), "the number of classes scales the scatter")])
    n, colls, loops, conts = idx.check_label_indexing(P, R, f, contract_0_k=False)
    idx.check_label_uses(P, R, f)
    nl = idx.check_set_loop_order(P, R, f)
    if not any(isinstance(x, ast.Subscript) and isinstance(x.value, ast.Name) and x.value.id == f.value_params[0] and isinstance(x.slice, ast.Slice) for x in ast.walk(f.node)):
        R.floor("IDX.loops[WCCN.fit]", len(loops), 1)
    # class count = number of distinct labels: the scalar that scales the scatter before the inversion
    scale_names = set()
    for st, t, v, k in stores(f):
        if isinstance(t, ast.Name) and isinstance(v, ast.BinOp) and isinstance(v.op, (ast.Mult, ast.Div)):
            for side in (v.left, v.right):
                for nm in ast.walk(side):
                    if isinstance(nm, ast.Name):
                        rd = du.reaching(du.stmt_of(st), nm.id)
                        if rd and all(d.how == "assign" and isinstance(d.value, (ast.Call, ast.BinOp)) and not any(isinstance(x, ast.BinOp) and isinstance(x.op, ast.MatMult) for x in ast.walk(d.value)) and ("len(" in src(d.value) or "max(" in src(d.value) or "shape" in src(d.value)) for d in rd):
                            scale_names.add(nm.id)
    for st, t, v, k in stores(f):
        if isinstance(t, ast.Name) and t.id in scale_names:
            ok = isinstance(v, ast.Call) and src(v.func) == "len" and v.args and (
                (isinstance(v.args[0], ast.Name) and v.args[0].id in colls) or (isinstance(v.args[0], ast.Call) and src(v.args[0].func).split(".")[-1] in ("set", "unique", "unique_labels"))
            )
            R.check(ok, "IDX.count", f.key, f"{t.id} = {src(v)}", "number of distinct labels", "class count is not the number of distinct labels (depends on label values)", st.lineno)
    # centred block: rows of class L minus the mean of class L
    found = 0
    for lp in loops:
        if lp.is_comp:
            continue
        for st, t, v, k in stores(lp.node):
            if isinstance(v, ast.BinOp) and isinstance(v.op, ast.Sub) and isinstance(t, ast.Name):
                c_l = cone(du, v.left, du.stmt_of(st), interproc=False)
                c_r = cone(du, v.right, du.stmt_of(st), interproc=False)
                lab_l = lp.label_var in {d.var for d in c_l.defs} or lp.label_var in {n.id for n in c_l.nodes if isinstance(n, ast.Name)}
                lab_r = lp.label_var in {d.var for d in c_r.defs} or lp.label_var in {n.id for n in c_r.nodes if isinstance(n, ast.Name)}
                # ... or both sides are entries, at this loop's position, of sequences that are positional in this same walk
                def _by_pos(cn):
                    for x_ in cn.nodes:
                        if isinstance(x_, ast.Subscript) and isinstance(x_.value, ast.Name) and x_.value.id in conts and isinstance(x_.slice, ast.Name) and lp.pos_var and x_.slice.id == lp.pos_var:
                            cc_ = conts[x_.value.id]
                            if cc_[0] == lp.coll and cc_[3].kind == lp.kind and cc_[2] == "list":
                                return True
                    return False
                lab_l = lab_l or _by_pos(c_l)
                lab_r = lab_r or _by_pos(c_r)
                if f.value_params[0] in c_l.params | c_r.params:
                    found += 1
                    R.check(lab_l and lab_r, "IDX.pair", f.key, src(st)[:70], "rows and mean selected by the same class", "centred block does not pair the rows of a class with that class's mean", st.lineno)
    # rows that enter the scatter are selected by label equality, never by position
    nsel = 0
    for n_ in walk_no_nested(f.node):
        if isinstance(n_, ast.AugAssign) and not isinstance(n_.op, ast.Add) and isinstance(n_.target, ast.Name) and any(isinstance(x, ast.BinOp) and isinstance(x.op, ast.MatMult) for x in ast.walk(n_.value)):
            R.violation("POL.scatter", f.key, src(n_)[:60], "the per-class scatter is not *added* to the within-class scatter", n_.lineno)
        if isinstance(n_, ast.AugAssign) and isinstance(n_.op, ast.Add) and isinstance(n_.target, ast.Name) and any(isinstance(x, ast.BinOp) and isinstance(x.op, ast.MatMult) for x in ast.walk(n_.value)):
            c = cone(du, n_.value, du.stmt_of(n_), interproc=False)
            for sub in [x for x in c.nodes if isinstance(x, ast.Subscript) and isinstance(x.value, ast.Name) and x.value.id == f.value_params[0]]:
                nsel += 1
                idxs = sub.slice.elts if isinstance(sub.slice, ast.Tuple) else [sub.slice]
                first = idxs[0]
                if isinstance(first, ast.Slice) and not (first.lower is None and first.upper is None):
                    R.violation("IDX.select", f.key, f"{src(sub)} in the scatter accumulation", "the members of a class are taken as a positional slice of X: samples of one class that are not stored contiguously are split into several 'classes' with their own means, so the projection depends on the order of the samples, not only on the partition", sub.lineno)
                else:
                    sc = cone(du, first, du.stmt_of(n_), interproc=False)
                    eq = any(isinstance(x, ast.Compare) and isinstance(x.ops[0], ast.Eq) for x in sc.nodes)
                    if not eq and isinstance(first, ast.Name):
                        # a comprehension variable that walks a per-class sequence of index sets
                        for g_ in [g2 for c2 in ast.walk(f.node) if isinstance(c2, (ast.ListComp, ast.GeneratorExp, ast.DictComp, ast.SetComp)) for g2 in c2.generators]:
                            if isinstance(g_.target, ast.Name) and g_.target.id == first.id and isinstance(g_.iter, ast.Name) and g_.iter.id in conts and isinstance(conts[g_.iter.id][1], (ast.ListComp, ast.GeneratorExp)):
                                elt_ = conts[g_.iter.id][1].elt
                                eq = any(isinstance(x, ast.Compare) and isinstance(x.ops[0], ast.Eq) and any(isinstance(y, ast.Name) and y.id == conts[g_.iter.id][3].label_var for y in ast.walk(x)) for x in ast.walk(elt_))
                    if not eq and isinstance(first, ast.Subscript) and isinstance(first.value, ast.Name) and first.value.id in conts and isinstance(conts[first.value.id][1], (ast.ListComp, ast.GeneratorExp)):
                        # an entry of a per-class sequence of index sets: decided on the expression that builds one entry
                        elt_ = conts[first.value.id][1].elt
                        eq = any(isinstance(x, ast.Compare) and isinstance(x.ops[0], ast.Eq) and any(isinstance(y, ast.Name) and y.id == conts[first.value.id][3].label_var for y in ast.walk(x)) for x in ast.walk(elt_))
                    if not eq:
                        from ..engines import group as _grp
                        g_ = _grp.sort_split(du, first, du.stmt_of(n_), [f.value_params[1]])
                        if g_.kind is not None:
                            R.check(g_.ok, "IDX.select", f.key, f"{src(sub)} in the scatter accumulation", g_.why, g_.why, sub.lineno)
                            continue
                    R.check(eq, "IDX.select", f.key, f"{src(sub)} in the scatter accumulation", "selected by label equality", "class members are not selected by `y == label`", sub.lineno)
    if found == 0 and nsel == 0:
        R.error("WCCN.fit: neither a per-class centred block nor a scatter accumulation over X was recognised")
    elif found == 0 and not any(o.rule == "IDX.select" and o.verdict == "violation" for o in R.obs):
        R.floor("IDX.pair[WCCN.fit]", found, 1)
    check_transform(P, R, "wccn:WCCN.transform")
    check_affine_constants(P, R, "wccn:WCCN.fit", subtract_zero=True)
    # the scatter is scaled by exactly 1 / (number of classes)
    pc_ = pol.Pol(P, f, track_coef=True, track_inv=True)
    for st, v in [(st, v) for st, t, v, k in stores(f) if isinstance(t, ast.Attribute) and t.attr == "weights" and isinstance(t.value, ast.Name) and t.value.id == f.self_name]:
        for ch in [n_ for n_ in cone(du, v, du.stmt_of(st), interproc=False).nodes if isinstance(n_, ast.Call) and src(n_.func).split(".")[-1] in ("inv", "pinv") and n_.args]:
            tt = list(dict.fromkeys(pc_.terms(ch.args[0], du.stmt_of(ch))))
            lits = sorted({x for s_, a in tt for x in a if x.startswith("#") or x.startswith("1/#")})
            R.check(not lits, "POL.wccn-scale", f.key, f"inv({src(ch.args[0])[:40]})", "S_w / K with no other literal factor", f"the within-class scatter is scaled by a literal factor {lits} besides 1 / (number of classes): the projected within-class covariance is not the identity", ch.lineno)
    # ---- Whitening --------------------------------------------------------------------
    f2, du2 = check_fit_common(P, R, "whitening:Whitening.fit", inv_of=[(("X",), "the data"), (("cov",), "the covariance matrix")])
    n_centre = 0
    for st, t, v, k in stores(f2):
        if isinstance(t, ast.Attribute) and t.attr == "input_subtract":
            n_centre += 1
            c = cone(du2, v, du2.stmt_of(st), interproc=False)
            ok = "X" in c.params and c.calls_any("mean")
            axis0 = any(isinstance(n, ast.Call) and src(n.func).split(".")[-1] == "mean" and any(kw.arg == "axis" and const_value(kw.value) == 0 for kw in n.keywords) for n in c.nodes)
            R.check(ok and axis0, "DEP.centre", f2.key, f"self.input_subtract = {src(v)}", "per-feature training mean", "input_subtract is not the per-feature mean of the training data (transformed data are not zero-mean)", st.lineno)
    R.check(n_centre >= 1, "DEP.centre", f2.key, "fit stores self.input_subtract", "", "Whitening.fit no longer stores the training mean: transform does not centre the data (the whitened training data are not zero-mean)")
    check_transform(P, R, "whitening:Whitening.transform")
    check_affine_constants(P, R, "whitening:Whitening.fit", subtract_zero=False)
    from ..engines import dtype as _dt
    n_dt = _dt.check_function(P, R, "wccn:WCCN.fit", raw_params=("X",)) + _dt.check_function(P, R, "whitening:Whitening.fit", raw_params=("X",))
    R.floor("DTYPE.raw sites (WCCN / whitening)", n_dt, 1)
    from ..engines import traps as _traps
    _traps.check(P, R, ['wccn', 'whitening'], scope='(wccn:|whitening:)')


EXPLANATION += " Also: (AFFINE) the fitted divisor is 1 and WCCN's offset 0, Whitening.fit stores the training mean; (POL.wccn-scale) the scatter is scaled by 1 / K and no other literal; (DTYPE.raw)."
EXPLANATION += ' (IDX.select, generalised by GROUP) class members selected by label equality or by a sort-and-split grouping of the labels (G1-G4).'
EXPLANATION += " (DTYPE.raw) no buffer shaped after the training data receives floating-point class means (integer-typed data would truncate them) and no product of the data is taken in the data's dtype; (IDX.I1) a sequence built over the classes is read by position only under the same walk of the same collection (set order and sorted order are different orders)."
