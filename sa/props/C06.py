"""C06 — k-means training descends the true distortion and stops by its stated rule."""
from __future__ import annotations

import ast

from ..dataflow import cone, get_defuse, stores
from ..engines import dimrun
from ..engines import loop as loopeng
from ..frontend import const_value, src, walk_no_nested

EXPLANATION = (
    "Decides for every configuration and chunking at once: (LOOP L1-L6, sibling of C03) KMeansMachine.fit runs exactly max_iter passes "
    "unless the single early exit fires, which is guarded by `threshold is not None` and `value <= threshold`, with value = "
    "abs((previous - current)/previous), previous copied before the update, current = the criterion stored from the M-step's second "
    "result in both arms; (DIM/EXT) squared distances are U^2 [C,N]; the E-step's per-block partials are extensive (counts S [C], "
    "sums U*S [C,D], summed distance U^2*S) so that summing them over blocks and dividing once by the global sample count gives the "
    "mean squared distance U^2*S^0 of the whole data (an averaged per-block value would make the criterion chunk-dependent); "
    "centroids are U [C,D]; (DEP) the new centroid is sum/count of the samples whose argmin over the *cluster* axis of the distances to "
    "the centroids entering the pass selects it, and the same centroids feed the criterion. Descent itself is numerical and not decided."
)
ASSUMPTIONS = ["scipy cdist(..., 'sqeuclidean') returns squared Euclidean distances [n_a, n_b]", "np.bincount counts samples per index"]
FIT = "kmeans:KMeansMachine.fit"


def check_assignment(P, R):
    """argmin over the cluster axis; centroids entering the pass feed both assignment and criterion."""
    f = P.func("kmeans:e_step")
    R.analysed(f)
    du = get_defuse(f, P)
    dp, mp = f.value_params[:2]
    rets = [r for r in walk_no_nested(f.node) if isinstance(r, ast.Return) and isinstance(r.value, ast.Tuple) and len(r.value.elts) == 3]
    if not rets:
        R.violation("DEP.kmeans", f.key, "return (counts, sums, distance)", "the E-step does not return the three block partials")
        return
    for r in rets:
        z, fo, dist = r.value.elts
        cz, cf, cd = (cone(du, x, r, interproc=True) for x in (z, fo, dist))
        for nm, c, needs in (("counts", cz, ("argmin",)), ("sums", cf, ("argmin",)), ("criterion", cd, ("min", "amin"))):
            R.check(any(c.calls_any(n) for n in needs), "DEP.kmeans", f.key, f"{nm} derive from the nearest-centroid {'assignment' if nm != 'criterion' else 'distance'}", "", f"the block {nm} do not derive from the {'argmin assignment' if nm != 'criterion' else 'minimum distance'}", r.lineno)
            R.check(mp in c.params and dp in c.params, "DEP.kmeans", f.key, f"{nm} depend on data and on the entering centroids", "", f"the block {nm} do not depend on both the data and the centroids passed in", r.lineno)
        R.check(cf.calls_any("sum") and dp in cf.params, "DEP.kmeans", f.key, "sums are sums of the assigned samples", "", "first-order statistics are not sums of samples", r.lineno)
    # fit passes the current centroids
    g = P.func(FIT)
    for c in [x for x in walk_no_nested(g.node) if isinstance(x, ast.Call)]:
        kind, fexpr, args, kws = P.peel_call(c, g)
        if src(fexpr) == "e_step":
            tg = P.func("kmeans:e_step")
            b = P.bind_args(tg, args, kws)
            a = b.get(mp)
            R.check(a is not None and src(a) == f"{g.self_name}.centroids_", "DEP.kmeans-entering", g.key, f"e_step({mp}={src(a) if a is not None else None})", "centroids entering the pass", "the E-step is not given the machine's current centroids (stale or foreign centroids)", c.lineno)
    # m_step: centroid = sum / count, criterion / n_samples once
    m = P.func("kmeans:m_step")
    R.analysed(m)
    mdu = get_defuse(m, P)
    for r in [x for x in walk_no_nested(m.node) if isinstance(x, ast.Return) and isinstance(x.value, ast.Tuple) and len(x.value.elts) == 2]:
        means, crit = r.value.elts
        cm = cone(mdu, means, r, interproc=False)
        divs = [n for n in cm.nodes if isinstance(n, ast.BinOp) and isinstance(n.op, ast.Div)]
        R.check(bool(divs), "DEP.kmeans-mean", m.key, f"centroids = {src(means)}", "sum / count", "centroids are not a quotient of accumulated sums and counts", r.lineno)


def check_cluster_masks(P, R, rule="IDX.mask-eq"):
    """The samples summed into cluster i's statistics are those whose nearest-centroid index *equals* i."""
    n = 0
    todo = []
    for key0 in ("kmeans:e_step", "kmeans:accumulate_indices_means_vars"):
        f0 = P.func(key0)
        lab0 = lambda cn: cn.calls_any("argmin") or any(x.endswith("get_closest_centroid_index") for x in cn.calls)
        todo.append((key0, f0, f0.value_params[0], lab0, key0))
        # helpers of the package that receive the data and the assignment: examined with the roles bound to their parameters
        du0 = get_defuse(f0, P)
        for c0 in [x for x in walk_no_nested(f0.node) if isinstance(x, ast.Call)]:
            try:
                kind0, fexpr0, args0, kws0 = P.peel_call(c0, f0)
                tg0 = [t_[1] for t_ in P.resolve_callee(fexpr0, f0) if t_[0] == "repo"]
            except Exception:
                tg0 = []
            for callee in tg0[:1]:
                b0 = P.bind_args(callee, args0, kws0)
                dp = [p_ for p_, a_ in b0.items() if isinstance(a_, ast.Name) and a_.id == f0.value_params[0]]
                lp_ = [p_ for p_, a_ in b0.items() if a_ is not None and p_ not in dp and lab0(cone(du0, a_, du0.stmt_of(c0), interproc=False))]
                if dp and lp_:
                    todo.append((callee.key, callee, dp[0], (lambda names: (lambda cn: bool(set(names) & cn.params)))(tuple(lp_)), key0))
    counts = {}
    for key, f, data_p, is_label, root_key in todo:
        du = get_defuse(f, P)
        n_here = n
        from ..engines import group as _grp
        for sub_ in [x for x in walk_no_nested(f.node) if isinstance(x, ast.Subscript) and not isinstance(x.ctx, ast.Store)]:
            first = sub_.slice.elts[0] if isinstance(sub_.slice, ast.Tuple) and sub_.slice.elts else sub_.slice
            if isinstance(first, (ast.Slice, ast.Constant)):
                continue
            bc = cone(du, sub_.value, du.stmt_of(sub_), interproc=False)
            if data_p not in bc.params or is_label(bc):
                continue  # not a selection out of the data
            kind, ok, why = _grp.selection(du, first, du.stmt_of(sub_), is_label)
            if kind is None:
                continue
            n += 1
            if kind == "mask-eq":
                cmp_ = first
                idx = cmp_.comparators[0] if is_label(cone(du, cmp_.left, du.stmt_of(sub_), interproc=False)) else cmp_.left
                loopvar = isinstance(idx, ast.Name) and any((isinstance(p_, ast.For) and isinstance(p_.target, ast.Name) and p_.target.id == idx.id) or (isinstance(p_, (ast.ListComp, ast.GeneratorExp, ast.DictComp)) and any(isinstance(g_.target, ast.Name) and g_.target.id == idx.id for g_ in p_.generators)) for p_ in _parents(sub_))
                R.check(ok and loopvar, rule, key, src(sub_)[:60], "samples assigned to the cluster being accumulated", f"cluster statistics are accumulated over `{src(cmp_)}`, not over the samples whose nearest centroid *is* the cluster", sub_.lineno)
                # ... and the loop visits every cluster that has members: range(n) / all ids, or ids filtered by `count > 0`
                if isinstance(idx, ast.Name):
                    for p_ in _parents(sub_):
                        it_ = p_.iter if isinstance(p_, ast.For) and isinstance(p_.target, ast.Name) and p_.target.id == idx.id else None
                        if it_ is None:
                            continue
                        ci_ = cone(du, it_, p_, interproc=False)
                        filt = [x for x in ci_.nodes if isinstance(x, ast.Compare) and len(x.ops) == 1 and isinstance(x.comparators[0], ast.Constant) and isinstance(x.comparators[0].value, (int, float)) and not isinstance(x.comparators[0].value, bool)]
                        for x in filt:
                            k_, op_ = x.comparators[0].value, x.ops[0]
                            nonempty = (isinstance(op_, ast.Gt) and k_ == 0) or (isinstance(op_, ast.GtE) and k_ == 1) or (isinstance(op_, ast.NotEq) and k_ == 0)
                            R.check(nonempty, "COVER.clusters", key, f"for {idx.id} in {src(it_)[:50]}", "every cluster with members is visited", f"the loop over the clusters is restricted by `{src(x)}`: clusters with members that fail this test get no contribution from this block, so the per-block sums depend on how the rows are chunked", p_.lineno)
                        break
            else:
                R.check(ok, rule, key, src(sub_)[:60], why, f"cluster statistics are not accumulated over the samples whose nearest centroid *is* the cluster: {why}", sub_.lineno)
        for node_, kind_, ok_, why_ in _grp.scatter_sites(f, du, is_label, data_p):
            n += 1
            R.check(ok_, rule, key, src(node_)[:60], why_, f"cluster statistics are not accumulated over the samples whose nearest centroid *is* the cluster: {why_}", node_.lineno)
        counts[root_key] = counts.get(root_key, 0) + (n - n_here)
    for root_key, k_ in counts.items():
        R.floor(f"{rule} ({root_key})", k_, 1)  # at least one per function (or its helpers): selecting the cluster's samples once or per statistic are both fine


def _parents(n):
    p = getattr(n, "_parent", None)
    while p is not None:
        yield p
        p = getattr(p, "_parent", None)


def run(P, R, tier):
    check_cluster_masks(P, R)
    F = loopeng.analyse(P, R, FIT, "max_iter", "convergence_threshold", ("m_step",))
    if F is not None:
        n = loopeng.check_criterion_source(P, R, F, FIT, ("m_step",))
        R.floor("LOOP.L4-mstep definitions", n, 1)
    # criterion attribute is stored from the M-step in both arms
    f = P.func(FIT)
    nst = 0
    for st, t, v, k in stores(f):
        if isinstance(t, ast.Attribute) and t.attr == "average_min_distance":
            nst += 1
    R.floor("criterion stores", nst, 2)
    n, rets = dimrun.route(P, R, ["km.fit", "km.transform", "km.predict"], rules=["DIM.", "EXT."], where_prefix=["kmeans:", "utils:"])
    R.floor("DIM/EXT obligations (k-means)", n, 15)
    dimrun.compare_modes(P, R, "km.transform")
    check_assignment(P, R)
    # argmin over the cluster axis
    g = P.func("kmeans:get_closest_centroid_index")
    for c in [x for x in walk_no_nested(g.node) if isinstance(x, ast.Call) and src(x.func).split(".")[-1] == "argmin"]:
        ax = next((const_value(k.value) for k in c.keywords if k.arg == "axis"), const_value(c.args[1]) if len(c.args) > 1 else None)
        R.check(ax == 0, "SHAPE.argmin", g.key, src(c), "argmin over the cluster axis of a (clusters, samples) array", f"argmin is taken over axis {ax}: with distances of shape (clusters, samples) this picks the nearest *sample* of each cluster, not the nearest centroid of each sample", c.lineno)
    from ..engines import dtype as _dt
    _dt.check_function(P, R, "kmeans:e_step", raw_params=("data", "means"))
    # the M-step: whatever fit hands it of the current centroids / the data keeps the dtype the user gave (an integer array of
    # initial centroids), so a buffer shaped after it truncates the means stored into it
    fm_ = P.func("kmeans:m_step")
    ff_ = P.func(FIT)
    duf_ = get_defuse(ff_, P)
    rawp_ = set()
    for c_ in [x for x in walk_no_nested(ff_.node) if isinstance(x, ast.Call)]:
        try:
            kind_, fexpr_, args_, kws_ = P.peel_call(c_, ff_)
            tg_ = [t[1] for t in P.resolve_callee(fexpr_, ff_) if t[0] == "repo"]
        except Exception:
            tg_ = []
        if not tg_ or tg_[0].key != fm_.key:
            continue
        for p_, a_ in P.bind_args(fm_, args_, kws_).items():
            if a_ is None:
                continue
            cn_ = cone(duf_, a_, duf_.stmt_of(c_), interproc=False)
            direct = isinstance(a_, (ast.Attribute, ast.Name)) and (src(a_).split(".")[-1] in ("centroids_", "means") or (isinstance(a_, ast.Name) and a_.id in ff_.params and a_.id not in ("self",)))
            if direct:
                rawp_.add(p_)
    _dt.check_function(P, R, "kmeans:m_step", raw_params=tuple(sorted(rawp_)))
    from ..engines import proto as _pp
    _pp.check_pairwise_folds(P, R, ['kmeans', 'utils'])
    from ..engines import proto as _pbs
    _pbs.check_block_sums(P, R, "kmeans:m_step")
    from ..engines import traps as _traps
    _traps.check(P, R, ['kmeans', 'utils'], scope='(kmeans:(e_step|m_step|get_centroids_distance|get_closest_centroid_index|KMeansMachine\\.fit)|utils:)')
    from ..engines import own as _oro
    _own_ro = _oro.Own(P)
    n_ro = 0
    n_ro += _oro.check_param_readonly(P, R, _own_ro, 'kmeans:m_step', ['stats'], why='the statistics / data handed to one step are changed by it: a second step from the same object (several clients adapted from one set of statistics, a repeated call) computes from different values')
    n_ro += _oro.check_param_readonly(P, R, _own_ro, 'kmeans:e_step', ['data', 'means'], why='the statistics / data handed to one step are changed by it: a second step from the same object (several clients adapted from one set of statistics, a repeated call) computes from different values')
    R.floor('OWN.readonly parameters', n_ro, 3)
    from ..engines import carry as _carry
    _carry.check_stale_derived(P, R, FIT)
    _carry.check_blocked_loops(P, R, ["kmeans"])


EXPLANATION += ' Also: (ACC.sum) the per-block statistics are added (+=) from zero in the M-step; (DTYPE.raw); (COVER.pairs); (DIM.ABS) no dimensioned quantity is tested against an absolute constant.'
EXPLANATION += ' (IDX.mask-eq, generalised by GROUP) the rows summed into a cluster are selected by equality with the cluster id, by a sort-and-split grouping of the assignment (G1-G5), by a scatter-add at the assignment, or by segment sums over the runs of the sorted assignment; (COVER.tree) tree-shaped sums of the block statistics.'
EXPLANATION += " (STALE.derived / BLOCK.carried) nothing precomputed from the centroids survives their update, and per-cluster results are computed from that cluster's values; DTYPE.raw also covers what fit hands the M-step of the current centroids."
