"""C18 — saving and loading a GMM or its statistics preserves them exactly."""
from __future__ import annotations

import ast

from ..cfg import ENTRY, guards_of
from ..dataflow import cone, get_defuse, stores
from ..engines import cache, fields, schema
from ..frontend import const_value, src, walk_no_nested

EXPLANATION = (
    "Decides the writer/reader agreement of the HDF5 schema of GMMMachine (11 keys) and GMMStats (7 keys) for every "
    "object state at once: (S2) every attribute `save` records under key k is restored by `from_hdf5` from a value that "
    "has k in its def-use cone (a constant, a constructor default or another attribute's key is a violation; constructor "
    "parameters are traced to attributes through __init__); (S3) every dataset read is dereferenced before use; (S4) keys "
    "written from str attributes are decoded before being compared; (S5) floors are assigned before variances in both "
    "reader arms (the variances setter clamps against the floors in force); (S6) `load` passes the loaded fields to "
    "init_fields in parameter order and resizes before, not after; (S7) the legacy arm restores the same data attributes; "
    "(S8) None-able settings are only stored under an `is not None` guard and read back as None when absent; plus C17's "
    "`load replaces the whole state`. Bit-identity of floats through h5py is a library property and is not decided."
)
ASSUMPTIONS = [
    "h5py: Dataset objects must be dereferenced ([()], [...], np.array) before use; string scalars read back as bytes; None cannot be stored",
    "the file-version test selects the current-format arm",
]

SHAPE_FIELDS = {"GMMStats": ("n_gaussians", "n_features")}
LEGACY_REQUIRED = {
    # data attributes the legacy format carries (read from the legacy arms of the pinned tree)
    "GMMStats": ["n_gaussians", "n_features", "log_likelihood", "t", "n", "sum_px", "sum_pxx"],
    "GMMMachine": ["n_gaussians", "weights", "means", "variances", "variance_thresholds"],
}
KEY_FLOOR = {"GMMStats": 7, "GMMMachine": 11}


def _noneable_attrs(P, ci):
    init = P.lookup_method(ci, "__init__")
    out = set()
    if init is None:
        return out
    tested = set()
    for n in walk_no_nested(init.node):
        if isinstance(n, ast.Compare) and len(n.ops) == 1 and isinstance(n.ops[0], (ast.Is, ast.IsNot)) and isinstance(n.comparators[0], ast.Constant) and n.comparators[0].value is None and isinstance(n.left, ast.Name):
            tested.add(n.left.id)
    for st, t, v, k in stores(init):
        if isinstance(t, ast.Attribute) and isinstance(t.value, ast.Name) and t.value.id == init.self_name and isinstance(v, ast.Name) and v.id in init.value_params:
            p = v.id
            ann = src(init.annotations[p]) if p in init.annotations else ""
            dflt = init.defaults.get(p)
            noneable = "None" in ann or "Optional" in ann or (isinstance(dflt, ast.Constant) and dflt.value is None) or p in tested
            guarded = any(src(g).replace(" ", "") == f"{p}isnotNone" and pol for g, pol in guards_of(st))
            if noneable and not guarded:
                out.add(t.attr)
    return out


def _str_attrs(P, ci):
    init = P.lookup_method(ci, "__init__")
    out = set()
    if init is None:
        return out
    for p in init.value_params:
        ann = src(init.annotations[p]).strip("'\"") if p in init.annotations else ""
        d = init.defaults.get(p)
        if ann == "str" or (isinstance(d, ast.Constant) and isinstance(d.value, str) and "Union" not in ann):
            out.add(p)
    return out


def check_class(P, R, clsname):
    ci = P.cls(clsname)
    mod = ci.module.name
    save = P.func(f"{mod}:{clsname}.save")
    rd = P.func(f"{mod}:{clsname}.from_hdf5")
    R.analysed(save)
    R.analysed(rd)
    W, wroots = schema.writer_map(P, save)
    R.floor(f"SCHEMA.writer[{clsname}]", len(W), KEY_FLOOR[clsname])
    cur, leg, ifn = schema.version_arms(rd)
    if cur is None:
        R.error(f"{rd.key}: file-version switch not found")
        return
    rdu = get_defuse(rd, P)
    rroots = schema._h5_roots(rd, rdu)
    srcs, obj, _ = schema.reader_sources(P, rd, cur, rroots)
    if obj is None:
        R.error(f"{rd.key}: the current-format arm does not construct a {clsname}")
        return
    shape = SHAPE_FIELDS.get(clsname, ())
    noneable = _noneable_attrs(P, ci)
    strattrs = _str_attrs(P, ci)
    written_keys = {w.key for w in W}

    def keys_of(expr, stmt):
        if expr is None:
            return set(), None
        c = cone(rdu, expr, rdu.stmt_of(stmt), interproc=False)
        return {k for _n, k in schema.key_reads(c.nodes, rroots)}, c

    # ---- S2: every recorded attribute is restored from its own key -------------------
    for w in W:
        attrs = sorted(a for a in w.attrs if not a.startswith("__"))
        if not attrs:
            R.note(f"{save.key}: key {w.key} is not written from an attribute (`{src(w.value)}`)")
            continue
        for a in attrs:
            what = f"{a} <- hdf5[{w.key!r}]"
            cand = srcs.get(a) or srcs.get("_" + a)
            if not cand:
                R.violation("SCHEMA.S2", rd.key, what, f"attribute {a} is written by save under {w.key!r} but never restored by the reader")
                continue
            order, expr, stmt, via = cand[-1]
            if expr is None:
                R.violation("SCHEMA.S2", rd.key, what, f"restored from the {via}, not from the file")
                continue
            ks, c = keys_of(expr, stmt)
            if w.key in ks:
                R.ok("SCHEMA.S2", rd.key, what, f"via {via}: `{src(expr)[:60]}`", stmt.lineno)
            elif a in shape and ks:
                R.ok("SCHEMA.S2", rd.key, what, f"shape field derived from {sorted(ks)}", stmt.lineno)
            elif not ks:
                R.violation("SCHEMA.S2", rd.key, what, f"{via} receives `{src(expr)}`, which does not come from the file (constant/default): the saved {a} is lost", stmt.lineno)
            else:
                R.violation("SCHEMA.S2", rd.key, what, f"{via} receives `{src(expr)}`, read from key(s) {sorted(ks)} instead of {w.key!r}", stmt.lineno)
            # ---- S8 reader side
            if a in noneable:
                wg = any(src(g).replace(" ", "") == f"{save.self_name}.{a}isnotNone" and pol for g, pol in w.guards)
                if wg:
                    handles_absent = False
                    if c is not None:
                        for n in c.nodes:
                            if isinstance(n, ast.Compare) and isinstance(n.ops[0], (ast.In, ast.NotIn)) and schema._keytext(n.left) == w.key.split("/")[-1]:
                                handles_absent = True
                            if isinstance(n, ast.Call) and isinstance(n.func, ast.Attribute) and n.func.attr == "get":
                                handles_absent = True
                    for g, pol in guards_of(stmt):
                        if "in" in src(g).split():
                            handles_absent = True
                    R.check(handles_absent, "SCHEMA.S8-read", rd.key, what, "absent key restores None", f"save omits {w.key!r} when {a} is None but the reader reads the key unconditionally (KeyError on such files)", stmt.lineno)
    # ---- S8 writer side --------------------------------------------------------------
    for w in W:
        for a in sorted(w.attrs & noneable):
            guarded = any(src(g).replace(" ", "") == f"{save.self_name}.{a}isnotNone" and pol for g, pol in w.guards)
            # ... or the written value itself is tested (`value = getattr(self, key)` / `if value is not None: hdf5[key] = value`)
            guarded = guarded or any(pol and isinstance(g, ast.Compare) and len(g.ops) == 1 and isinstance(g.ops[0], ast.IsNot) and const_value(g.comparators[0]) is None and isinstance(g.comparators[0], ast.Constant) and src(g.left) == src(w.value) for g, pol in w.guards)
            encoded = any(isinstance(n, ast.IfExp) and "None" in src(n.test) for n in ast.walk(w.value))
            R.check(
                guarded or encoded, "SCHEMA.S8", save.key, f"hdf5[{w.key!r}] = {src(w.value)}",
                "stored only when set",
                f"{a} may be None (documented configuration) and h5py cannot store None: save raises TypeError for such a machine", w.stmt.lineno,
            )
    # ---- S3: dereference ---------------------------------------------------------------
    nreads = 0
    for n in walk_no_nested(rd.node):
        for node, key in schema.key_reads([n], rroots):
            if isinstance(getattr(node, "_parent", None), ast.Assign) and node._parent.value is node and isinstance(node._parent.targets[0], ast.Name) and node._parent.targets[0].id in rroots:
                continue  # binding a group
            par_ = getattr(node, "_parent", None)
            if isinstance(par_, ast.ListComp) and par_.elt is node and isinstance(getattr(par_, "_parent", None), ast.Assign) and isinstance(par_._parent.targets[0], ast.Name) and par_._parent.targets[0].id in rroots:
                continue  # binding a list of groups
            nreads += 1
            R.check(
                schema.is_dereferenced(node), "SCHEMA.S3", rd.key, f"{src(node)} in `{src(schema_stmt(node))[:70]}`",
                "dereferenced",
                "h5py Dataset used without dereferencing ([()] / [...] / np.array): it never equals a value, so the test it feeds is always false", node.lineno,
            )
    R.floor(f"SCHEMA.S3[{clsname}]", nreads, KEY_FLOOR[clsname] - 1)
    # ---- S4: kind conversion -------------------------------------------------------------
    for w in W:
        for a in sorted(w.attrs & strattrs):
            uses = []
            cand = srcs.get(a)
            if cand and cand[-1][1] is not None:
                uses.append((cand[-1][1], cand[-1][2], f"value given to {a}"))
            for n in walk_no_nested(rd.node):
                if isinstance(n, ast.Compare):
                    ks, c = keys_of(n, n)
                    if w.key in ks and not any(isinstance(o, (ast.In, ast.NotIn)) and schema._keytext(n.left) for o in n.ops):
                        uses.append((n, n, "comparison"))
            for expr, stmt, what in uses:
                ks, c = keys_of(expr, stmt)
                dec = c is not None and any(x.split(":")[-1].split(".")[-1] in schema.DECODE_MARKS or x in ("?str",) for x in c.calls)
                bytes_cmp = any(isinstance(n, ast.Constant) and isinstance(n.value, bytes) for n in (c.nodes if c else []))
                R.check(
                    dec or bytes_cmp, "SCHEMA.S4", rd.key, f"{what}: `{src(expr)[:60]}` (key {w.key!r})",
                    "decoded to str",
                    f"{a} is a str attribute; h5py returns it as bytes, and the undecoded value fails the string comparison it feeds (b'map' != 'map')", getattr(stmt, "lineno", None),
                )
    # ---- S5: floors before variances in each arm -------------------------------------------
    if clsname == "GMMMachine":
        for arm, name in ((cur, "current"), (leg, "legacy")):
            check_setter_order(P, R, rd, arm, f"{name}-format arm", "SCHEMA.S5")
    # ---- S7: legacy arm -------------------------------------------------------------------
    lsrcs, lobj, _ = schema.reader_sources(P, rd, leg or [], rroots)
    for a in LEGACY_REQUIRED[clsname]:
        cand = lsrcs.get(a)
        if not cand or cand[-1][1] is None:
            R.violation("SCHEMA.S7", rd.key, f"legacy arm restores {a}", f"legacy-format arm does not restore {a} from the file")
            continue
        ks, _c = keys_of(cand[-1][1], cand[-1][2])
        R.check(bool(ks), "SCHEMA.S7", rd.key, f"legacy arm restores {a}", f"from {sorted(ks)}", f"legacy-format arm gives {a} a value that does not come from the file")
    # ---- S9: per-component groups of the legacy format are read in index order (the weights are index-ordered) ------
    if clsname == "GMMMachine" and leg:
        fparam = rd.value_params[0] if rd.value_params else "hdf5"
        n_loops = 0
        for st in leg:
            for lp in ast.walk(st):
                gens = []
                if isinstance(lp, ast.For):
                    gens = [(lp.target, lp.iter, lp.body)]
                elif isinstance(lp, (ast.ListComp, ast.GeneratorExp, ast.DictComp, ast.SetComp)):
                    gens = [(g.target, g.iter, [lp]) for g in lp.generators]
                for tgt, it, body in gens:
                    it_src = src(it)
                    by_name = any(isinstance(x, ast.Call) and isinstance(x.func, ast.Attribute) and x.func.attr in ("items", "keys", "values") for x in ast.walk(it)) or (isinstance(it, ast.Name) and it.id == fparam)
                    reads_groups = any(isinstance(x, ast.Constant) and isinstance(x.value, str) and "m_gaussians" in x.value for b in body for x in ast.walk(b)) or any(isinstance(x, ast.Constant) and isinstance(x.value, str) and "m_gaussians" in x.value for x in ast.walk(it))
                    if not (reads_groups or by_name):
                        continue
                    n_loops += 1
                    if by_name:
                        R.violation("SCHEMA.S9", rd.key, f"for ... in {it_src[:50]}", "the per-component groups of the legacy file are visited in the file's name order (m_gaussians10 sorts before m_gaussians2) while the weights are in index order: with more than ten components means and variances are attached to the wrong weights", getattr(lp, "lineno", None))
                        continue
                    is_range = isinstance(it, ast.Call) and isinstance(it.func, ast.Name) and it.func.id == "range"
                    lv = {x.id for x in ast.walk(tgt) if isinstance(x, ast.Name)}
                    keyed = any(isinstance(x, ast.Subscript) and isinstance(x.value, ast.Name) and x.value.id == fparam and (lv & {y.id for y in ast.walk(x.slice) if isinstance(y, ast.Name)}) for b in body for x in ast.walk(b))
                    if is_range and keyed:
                        R.ok("SCHEMA.S9", rd.key, f"for {src(tgt)} in {it_src[:40]}: {fparam}[f'm_gaussians{{{src(tgt)}}}']", "groups addressed by component index")
                    else:
                        R.undecided("SCHEMA.S9", rd.key, f"for {src(tgt)} in {it_src[:40]}", "the order in which the legacy per-component groups are read is not recognised")
        R.floor("SCHEMA.S9 legacy component loops", n_loops, 1)
    # both arms return the object they built
    for r in [n for n in walk_no_nested(rd.node) if isinstance(n, ast.Return)]:
        R.check(isinstance(r.value, ast.Name) and r.value.id in (obj, lobj), "SCHEMA.ret", rd.key, f"return {src(r.value) if r.value else None}", "returns the object built", "reader does not return the object it restored")
    return W, srcs


def schema_stmt(node):
    p = node
    while p is not None and not isinstance(p, ast.stmt):
        p = getattr(p, "_parent", None)
    return p


def check_setter_order(P, R, func, stmts, label, rule):
    """Floors are assigned before variances (the variances setter clamps against the floors in force)."""
    du = get_defuse(func, P)
    vs, ts = [], []
    for st in stmts or []:
        for n in walk_no_nested(st):
            if isinstance(n, ast.Assign):
                for t in n.targets:
                    for tt in (t.elts if isinstance(t, ast.Tuple) else [t]):
                        if isinstance(tt, ast.Attribute) and tt.attr == "variances":
                            vs.append((n, tt))
                        if isinstance(tt, ast.Attribute) and tt.attr == "variance_thresholds":
                            ts.append((n, tt))
    for vn, vt in vs:
        same = [(tn, tt) for tn, tt in ts if src(tt.value) == src(vt.value)]
        if not same:
            continue
        for tn, tt in same:
            if not (du.cfg.reach_avoiding(tn, vn) or du.cfg.reach_avoiding(vn, tn)):
                continue  # on different branches: never both executed
            first = not du.cfg.reach_avoiding(vn, tn)
            R.check(
                first, rule, func.key, f"{label}: {src(tt)} before {src(vt)}",
                "floors in force when the variances are clamped",
                f"{src(vt)} is assigned before {src(tt)}: the variances are first clamped by the floors then in force (default machine epsilon), so stored variances below that default are raised and the saved/prior model is not restored exactly", vn.lineno,
            )


def check_stats_load(P, R):
    f = P.func("gmm:GMMStats.load")
    R.analysed(f)
    du = get_defuse(f, P)
    initf = P.func("gmm:GMMStats.init_fields")
    # parameter -> field it is stored into
    p2f = {}
    idu = get_defuse(initf, P)
    for st, t, v, k in stores(initf):
        if isinstance(t, ast.Attribute) and isinstance(t.value, ast.Name) and t.value.id == initf.self_name:
            for n in ast.walk(v):
                if isinstance(n, ast.Name) and n.id in initf.value_params:
                    p2f[n.id] = t.attr
    calls = [c for c in walk_no_nested(f.node) if isinstance(c, ast.Call) and isinstance(c.func, ast.Attribute) and c.func.attr == "init_fields" and c.args + c.keywords]
    if not calls:
        R.error("gmm:GMMStats.load no longer calls init_fields with the loaded values")
        return
    for c in calls:
        b = P.bind_args(initf, c.args, c.keywords)
        for p, a in b.items():
            want = p2f.get(p, p)
            ok = isinstance(a, ast.Attribute) and a.attr == want
            R.check(ok, "SCHEMA.S6", f.key, f"init_fields({p}={src(a)})", f"loaded {want} -> field {want}", f"argument for parameter {p} (stored into field {want}) is `{src(a)}`: the loaded statistics are crossed", c.lineno)
        missing = [p for p in initf.value_params if p not in b]
        R.check(not missing, "SCHEMA.S6", f.key, "init_fields receives every field", "", f"fields {missing} are reset to zero by load instead of being loaded", c.lineno)
        # resize (which zeroes the fields) must not run after
        cst = du.stmt_of(c)
        for rz in [x for x in walk_no_nested(f.node) if isinstance(x, ast.Call) and isinstance(x.func, ast.Attribute) and x.func.attr in ("resize", "reset")]:
            rst = du.stmt_of(rz)
            R.check(not du.cfg.reach_avoiding(cst, rst), "SCHEMA.S6-order", f.key, f"{src(rz)[:40]} before init_fields(...)", "", "resize/reset runs after the loaded values are stored and wipes them", rz.lineno)
    # shape: when shapes differ, resize to the loaded shape
    rs = [x for x in walk_no_nested(f.node) if isinstance(x, ast.Call) and isinstance(x.func, ast.Attribute) and x.func.attr == "resize"]
    if rs:
        for x in rs:
            txt = src(x)
            R.check("new_self" in txt or any(isinstance(a, ast.Starred) for a in x.args), "SCHEMA.S6-shape", f.key, txt, "resized to the loaded shape", "resize does not use the loaded object's shape", x.lineno)
    else:
        # acceptable only if the shape fields are assigned from the loaded object
        assigned = {t.attr for st, t, v, k in stores(f) if isinstance(t, ast.Attribute)}
        R.check({"n_gaussians", "n_features"} <= assigned, "SCHEMA.S6-shape", f.key, "shape fields follow the loaded object", "", "loading into an object of a different shape keeps the old shape fields")



def check_hidden_state(P, R, clsname, rule="STATE.hidden"):
    """Everything a saved object carries from one call to the next is either set by the constructor, restored by the reader, or
    a parameter with a setter.  An attribute that a method creates on the fly (`self._last = ...` in fit, read back through
    `getattr(self, "_last", None)`) and that neither `__init__` nor the reader knows is state the file does not hold and `load()`
    does not reset: the reloaded object - or an object loaded over - continues differently from the saved one."""
    ci = P.cls(clsname)
    init_attrs, reader_attrs, created = set(), set(), {}
    for k_ in P.mro(ci):
        for nm, m in list(k_.methods.items()) + [(pn + "." + kind, fn) for pn, pr in k_.props.items() for kind, fn in pr.items()]:
            if not m.self_name:
                continue
            for st, t, v, k in stores(m):
                b = t
                while isinstance(b, ast.Subscript):
                    b = b.value
                if isinstance(b, ast.Attribute) and isinstance(b.value, ast.Name) and b.value.id == m.self_name:
                    if nm == "__init__" or ".set" in nm:
                        init_attrs.add(b.attr)
                    else:
                        created.setdefault(b.attr, (m, st))
            for c in walk_no_nested(m.node):
                if isinstance(c, ast.Call) and isinstance(c.func, ast.Name) and c.func.id == "setattr" and len(c.args) >= 2 and isinstance(c.args[0], ast.Name) and c.args[0].id == m.self_name and isinstance(c.args[1], ast.Constant):
                    if nm == "__init__" or ".set" in nm:
                        init_attrs.add(c.args[1].value)
                    else:
                        created.setdefault(c.args[1].value, (m, c))
        for pn in k_.props:
            init_attrs.add(pn)
    n = 0
    for a, (m, st) in sorted(created.items()):
        if a in init_attrs or a.lstrip("_") in init_attrs or ("_" + a) in init_attrs:
            continue
        n += 1
        R.violation(rule, m.key, f"self.{a} created in {m.key.split('.')[-1]}", f"`{a}` is created by `{m.key.split(':')[-1]}` and is neither initialised by the constructor nor a parameter with a setter: it is not written by save() and not reset by load() (`__dict__.update`), so it survives as hidden state - an object reloaded from its file, or a file loaded into a used object, behaves differently from the object that was saved", getattr(st, "lineno", None))
    R.ok(rule, clsname, f"every attribute the methods of {clsname} store is initialised by the constructor or is a parameter with a setter ({len(created)} stored attributes, {n} created on the fly)", "")
    return len(created)

def run(P, R, tier):
    check_class(P, R, "GMMMachine")
    check_class(P, R, "GMMStats")
    check_stats_load(P, R)
    n_hs = check_hidden_state(P, R, "GMMMachine") + check_hidden_state(P, R, "GMMStats")
    R.floor("STATE.hidden stored attributes", n_hs, 5)
    cache.k6_load_replaces_state(P, R)
    cache.k1_who_may_write(P, R)  # the reader restores parameters through the setters (clamp, normaliser, log-weights follow)
    # GMMStats.init_fields stores each parameter into its own field
    flds = fields.init_fields_of(P, "GMMStats", ("n_gaussians", "n_features"))
    fields.check_init_fields(P, R, "GMMStats", "init_fields", flds)
    fields.check_compare(P, R, "GMMStats", "__eq__", flds, rule="FIELDS.eq")
    from ..engines import traps as _traps
    _traps.check(P, R, ['gmm'], scope='gmm:(GMMMachine|GMMStats)\\.(save|load|from_hdf5|_\\w+)|gmm:_\\w*hdf5\\w*')
    # values restored from HDF5 are NumPy scalars: a test `isinstance(x.field, int)` is False for them
    n_ti = 0
    for mod_ in ("gmm", "kmeans", "ivector", "factor_analysis", "wccn", "whitening"):
        for f_ in P.all_funcs([mod_]):
            for c_ in walk_no_nested(f_.node):
                if isinstance(c_, ast.Call) and isinstance(c_.func, ast.Name) and c_.func.id == "isinstance" and len(c_.args) == 2 and isinstance(c_.args[0], ast.Attribute) and isinstance(c_.args[0].value, ast.Name) and c_.args[0].value.id == f_.self_name:
                    ty = c_.args[1]
                    names = {src(x) for x in (ty.elts if isinstance(ty, ast.Tuple) else [ty])}
                    fld_ = c_.args[0].attr
                    readers_ = [m_ for k_ in P.mro(f_.cls) for nm_, m_ in k_.methods.items() if nm_ in ("from_hdf5", "load")] if f_.cls is not None else []
                    restored_ = any(any((isinstance(x, ast.Constant) and x.value == fld_) or (isinstance(x, ast.keyword) and x.arg == fld_) or (isinstance(x, ast.Attribute) and x.attr == fld_) for x in ast.walk(m_.node)) or any(isinstance(x, ast.Attribute) and x.attr == "__dict__" for x in ast.walk(m_.node)) for m_ in readers_)
                    if not restored_:
                        continue
                    if names & {"int", "float", "bool"} and not any(("integer" in x or "Integral" in x or "Real" in x or "number" in x.lower() or "floating" in x or "generic" in x) for x in names):
                        n_ti += 1
                        R.violation("SCHEMA.scalar-type", f_.key, src(c_)[:60], f"`{src(c_)}` decides on the Python type of a stored setting; after save / load the setting comes back as a NumPy scalar (numpy.int64 / numpy.float64), for which this test is False: the reloaded object behaves differently from the saved one", c_.lineno)
    R.ok("SCHEMA.scalar-type", "package", f"no behaviour depends on a stored setting being a Python int / float rather than a NumPy scalar ({n_ti} sites)", "")


EXPLANATION += ' Also: (SCHEMA.S9) the per-component groups of the legacy format are addressed by index (the weights are index-ordered), never visited in name order.'
EXPLANATION += " (STATE.hidden) no method creates an attribute that the constructor does not initialise and that is not a parameter with a setter: such state is in no file and survives load()."
