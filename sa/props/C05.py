"""C05 — MAP adaptation interpolates between the prior model and the data by relevance."""
from __future__ import annotations

import ast

from ..dataflow import cone, get_defuse, stores
from ..engines import dimrun, guard, pol
from ..frontend import src, walk_no_nested
from .C18 import check_setter_order

EXPLANATION = (
    "Decides, for every prior, data set and configuration at once: (DIM) every MAP update is dimensionally homogeneous with alpha a "
    "pure intensive number, weights pure, means U, variances U^2, and both arms of every np.where agree; (BLEND, polarity domain) "
    "each adapted parameter is alpha * (data estimate) + (1 - alpha) * (prior value): the data moment carries +alpha, the prior value "
    "appears once with + and once with -alpha, the squared adapted mean is subtracted from the variance blend without alpha; (DEP) "
    "alpha depends on the component's responsibility mass and the relevance factor under Reynolds adaptation and on the configured "
    "ratio otherwise; (GUARD) the no-evidence fallback: means and variances are stored through np.where(n < threshold, <prior "
    "expression>, <blend>) whose selected arm depends on the prior only, and every division by a count is floored or masked by that "
    "test; the adapted weights are renormalised by their own sum; (OWN) the four prior arrays are deep-copied into the machine at both "
    "hand-over sites, each from the prior attribute of the same name; (ORDER) the prior's floors are handed over before its variances "
    "(the variances setter clamps against the floors in force). Limits (r -> 0, r -> inf) and penalised-likelihood ascent are numerical "
    "and not decided."
)
ASSUMPTIONS = ["copy.deepcopy returns an independent copy", "np.where selects element-wise; np.multiply is the product"]

MAP = "gmm:map_gmm_m_step"
PRIOR_ATTRS = ("means", "variances", "variance_thresholds", "weights")


def direct_attrs(du, e, stmt, depth=0):
    """Attribute chains an expression reads directly, following local names (not stores through access paths)."""
    from ..frontend import attr_chain
    out = set()
    for n in ast.walk(e):
        if isinstance(n, ast.Attribute):
            ch = attr_chain(n)
            if ch and not isinstance(getattr(n, "_parent", None), ast.Attribute):
                out.add(".".join(ch))
        elif isinstance(n, ast.Name) and isinstance(n.ctx, ast.Load) and depth < 5:
            for d in du.reaching(stmt, n.id):
                if d.how == "assign" and d.value is not None:
                    out |= direct_attrs(du, d.value, d.stmt, depth + 1)
    return out


def check_blend(P, R):
    f = P.func(MAP)
    R.analysed(f)
    du = get_defuse(f, P)
    p = pol.Pol(P, f, opaque={"alpha"})
    mp, sp = f.value_params[:2]
    specs = {
        # attribute: (data atoms, prior atoms, unblended negative atoms)
        "weights": ([f"{sp}.n"], [f"{mp}.ubm.weights", f"{mp}.ubm._weights"], []),
        "means": ([f"{sp}.sum_px"], [f"{mp}.ubm.means"], []),
        "variances": ([f"{sp}.sum_pxx"], [f"{mp}.ubm.variances"], [f"{mp}.means"]),
    }
    def through_helper(v, cst, data_a, prior_a, neg_a, al):
        """`machine.x = _helper(statistics, machine.ubm.x, alpha, ...)`: analyse what the helper returns, with the patterns expressed in
        the helper's parameter names.  -> (function, def-use, returned expression, return statement, translated patterns) or None"""
        if not isinstance(v, ast.Call):
            return None
        tg = [t_[1] for t_ in P.resolve_callee(v.func, f) if t_[0] == "repo"]
        if not tg:
            return None
        g = tg[0]
        rets = [r for r in walk_no_nested(g.node) if isinstance(r, ast.Return) and r.value is not None]
        if len(rets) != 1:
            return None
        b = P.bind_args(g, v.args, v.keywords)
        ren = {src(a_): p_ for p_, a_ in b.items() if isinstance(a_, (ast.Name, ast.Attribute))}

        def tr(pats):
            out = []
            for x in pats:
                y = x
                for a_txt, p_ in sorted(ren.items(), key=lambda kv: -len(kv[0])):
                    if x == a_txt or x.startswith(a_txt + "."):
                        y = p_ + x[len(a_txt):]
                        break
                out.append(y)
            return out

        return g, get_defuse(g, P), rets[0].value, rets[0], tr(data_a), tr(prior_a), tr(neg_a), tr([al])[0]

    for st, t, v, k in stores(f):
        if not (isinstance(t, ast.Attribute) and isinstance(t.value, ast.Name) and t.value.id == mp and t.attr in specs and k == "assign"):
            continue
        data_a, prior_a, neg_a = specs[t.attr]
        # the blend: for np.where stores it is the non-selected arm
        blend = v
        prior_arm = None
        cst = du.stmt_of(st)
        fa, dua, pa, al, mpa = f, du, p, "alpha", mp
        hop = through_helper(v, cst, data_a, prior_a, neg_a, "alpha")
        if hop is not None:
            fa, dua, v, cst, data_a, prior_a, neg_a, al = hop
            pa = pol.Pol(P, fa, opaque={al})
            blend = v
            mpa = None
        if isinstance(v, ast.Call) and src(v.func).split(".")[-1] == "where" and len(v.args) == 3:
            cond = v.args[0]
            # a mask with axes added for broadcasting, `(n < t)[:, None]`, is the comparison
            while isinstance(cond, ast.Subscript) and all((isinstance(i_, ast.Constant) and i_.value is None) or (isinstance(i_, ast.Slice) and i_.lower is None and i_.upper is None and i_.step is None) or (isinstance(i_, ast.Attribute) and i_.attr == "newaxis") for i_ in (cond.slice.elts if isinstance(cond.slice, ast.Tuple) else [cond.slice])):
                cond = cond.value
            cc = cone(dua, cond, cst, interproc=False)
            on_n = any(a.endswith(".n") for a in cc.attrs)
            # ... the responsibility mass itself, not a quantity derived from it (the adaptation coefficient is constant - never
            # small - when a fixed ratio is configured)
            if on_n and isinstance(cond, ast.Compare):
                from ..dataflow import resolve_name as _rn
                lhs = cond.left
                while isinstance(lhs, ast.Subscript):
                    lhs = lhs.value
                lhs = _rn(dua, lhs, cst)[0] if isinstance(lhs, ast.Name) else lhs
                while isinstance(lhs, ast.Subscript):
                    lhs = lhs.value
                direct_n = isinstance(lhs, ast.Attribute) and lhs.attr == "n"
                R.check(direct_n, "GUARD.no-evidence-mass", f.key, f"{src(cond)[:60]}", "tests the responsibility mass n itself", f"the no-evidence test is made on `{src(cond.left)[:30]}`, a quantity derived from the responsibility mass, not on the mass: with a fixed adaptation ratio it is never small, so a component without data is not given the prior's value (0/0 = NaN)", st.lineno)
            small_true = isinstance(cond, ast.Compare) and isinstance(cond.ops[0], (ast.Lt, ast.LtE))
            R.check(on_n and small_true, "GUARD.no-evidence", f.key, f"{src(t)} = np.where({src(cond)[:50]}, ...)", "no-evidence test on the responsibility mass", "the fallback of the adapted parameter is not selected by `n < threshold`", st.lineno)
            # ... against the configured threshold (the same one that floors the counts in the blend), not a constant of its own
            thr_params = [p_ for p_ in fa.params if "threshold" in p_]
            if on_n and small_true and thr_params and isinstance(cond, ast.Compare):
                tc_ = cone(dua, cond.comparators[0], cst, interproc=False)
                R.check(bool(set(thr_params) & tc_.params), "GUARD.no-evidence-threshold", f.key, f"{src(cond)[:60]}", f"compared with {thr_params[0]}", f"the no-evidence test compares the responsibility mass with `{src(cond.comparators[0])}` instead of the configured {thr_params[0]}: components between the two thresholds are blended with a floored count instead of keeping the prior (or the reverse)", st.lineno)
            prior_arm, blend = v.args[1], v.args[2]
            pattrs = direct_attrs(dua, prior_arm, cst)
            if mpa is not None:
                only_prior = all(a.startswith(f"{mp}.ubm") or a.startswith(f"{mp}.means") or a.split(".")[-1] in ("shape", "ndim") or a.split(".")[0] in ("np", "numpy") for a in pattrs)
                has_prior = any(a.startswith(f"{mp}.ubm.{t.attr}") for a in pattrs)
            else:
                # inside a helper the prior's parameter arrives as a parameter of its own
                pnames = {x.id for x in ast.walk(prior_arm) if isinstance(x, ast.Name)}
                only_prior = pnames <= set(prior_a) | {"np", "numpy"} and not pattrs - set(prior_a)
                has_prior = bool(pnames & set(prior_a))
            R.check(only_prior and has_prior, "GUARD.no-evidence-prior", f.key, f"fallback of {t.attr}: {src(prior_arm)[:50]}", "a component without evidence keeps the prior's parameter", "the no-evidence fallback does not (only) depend on the prior's parameter: a component that receives no data does not keep the prior", st.lineno)
        elif t.attr in ("means", "variances"):
            R.violation("GUARD.no-evidence", f.key, f"{src(t)} = {src(v)[:50]}", f"the adapted {t.attr} are stored without the `n < threshold` fallback to the prior: a component without evidence gets 0/0 or a value that is not the prior's", st.lineno)
        terms = list(dict.fromkeys(pa.terms(blend, cst)))
        def has(a, pats):
            return any(pol._match(x, pats) for x in a)
        data_t = [(s_, a) for s_, a in terms if has(a, data_a)]
        prior_t = [(s_, a) for s_, a in terms if has(a, prior_a)]
        what = f"{t.attr}: alpha*data + (1-alpha)*prior"
        ok_data = bool(data_t) and all(s_ == 1 and has(a, [al]) for s_, a in data_t)
        R.check(ok_data, "BLEND.data", f.key, what, pol.fmt_terms(data_t)[:100], f"the data term of the adapted {t.attr} does not carry +alpha: {pol.fmt_terms(data_t) or 'missing'}", st.lineno)
        plain = [x for x in prior_t if x[0] == 1 and not has(x[1], [al])]
        minus = [x for x in prior_t if x[0] == -1 and has(x[1], [al])]
        other = [x for x in prior_t if x not in plain and x not in minus]
        R.check(bool(plain) and bool(minus) and not other, "BLEND.prior", f.key, what, pol.fmt_terms(prior_t)[:100], f"the prior term of the adapted {t.attr} is not weighted by (1 - alpha): {pol.fmt_terms(prior_t) or 'missing'}", st.lineno)
        # numerator / denominator placement: data sums, prior parameters and alpha multiply (x * w and x / w look alike to the
        # sign and unit rules when w is dimensionless)
        pi = pol.Pol(P, fa, opaque={al}, track_inv=True)
        it = list(dict.fromkeys(pi.terms(blend, cst)))
        pol.check_inverse(R, "BLEND.placement", f.key, it, direct=data_a + prior_a + [al] + neg_a, what=f"{t.attr}: data, prior and alpha stand in numerators", line=st.lineno)
        pc = pol.Pol(P, fa, opaque={al}, track_coef=True)
        tc = list(dict.fromkeys(pc.terms(blend, cst)))
        pol.check_coefficients(R, "BLEND.coef", f.key, tc, [([x_], None) for x_ in data_a + prior_a], what=f"{t.attr}: alpha*data + (1 - alpha)*prior has no other literal factor", line=st.lineno)
        if prior_arm is not None:
            for na in neg_a:
                pt = list(dict.fromkeys(pa.terms(prior_arm, cst)))
                nt = [(s_, a) for s_, a in pt if has(a, [na]) and not has(a, prior_a)]
                R.check(bool(nt) and all(s_ == -1 for s_, a in nt), "BLEND.mean2", f.key, f"{t.attr} fallback: - adapted mean^2", pol.fmt_terms(nt)[:80], f"the squared adapted mean is not subtracted in the no-evidence fallback of the variances: {pol.fmt_terms(nt) or 'missing'}", st.lineno)
        for na in neg_a:
            nt = [(s_, a) for s_, a in terms if has(a, [na]) and not has(a, prior_a) and not has(a, data_a)]
            R.check(bool(nt) and all(s_ == -1 and not has(a, [al]) for s_, a in nt), "BLEND.mean2", f.key, f"{t.attr}: - adapted mean^2", pol.fmt_terms(nt)[:80], f"the squared adapted mean is not subtracted (unweighted) from the variance blend: {pol.fmt_terms(nt) or 'missing'}", st.lineno)
    # alpha
    n_alpha = 0
    for st, t, v, k in stores(f):
        if isinstance(t, ast.Name) and t.id == "alpha" and isinstance(v, ast.BinOp):
            n_alpha += 1
    if n_alpha == 0:
        R.violation("DEP.alpha", f.key, "alpha = n / (n + relevance_factor)", "the data-dependent adaptation coefficient is no longer computed: with Reynolds adaptation the configured fixed ratio is used for every component, whatever its evidence")
    for st, t, v, k in stores(f):
        if isinstance(t, ast.Name) and t.id == "alpha" and isinstance(v, ast.BinOp):
            c = cone(du, v, du.stmt_of(st), interproc=False)
            R.check(any(a.endswith(".n") for a in c.attrs) and "relevance_factor" in c.params, "DEP.alpha", f.key, f"alpha = {src(v)}", "n / (n + r)", "the adaptation coefficient does not depend on the responsibility mass and the relevance factor", st.lineno)
            tt = list(dict.fromkeys(p.terms(v, du.stmt_of(st))))
            R.check(all(s_ == 1 for s_, a in tt), "DEP.alpha", f.key, "alpha in [0, 1)", "", "alpha is not a ratio of positive terms", st.lineno)
            # alpha < 1: the denominator contains the numerator plus a positive term
            if isinstance(v.op, ast.Div) and isinstance(v.right, ast.BinOp) and isinstance(v.right.op, ast.Add):
                parts = {src(v.right.left), src(v.right.right)}
                R.check(src(v.left) in parts and "relevance_factor" in parts, "DEP.alpha-form", f.key, f"alpha = {src(v)}", "n / (n + r)", "alpha is not n / (n + relevance_factor)", st.lineno)
            else:
                R.violation("DEP.alpha-form", f.key, f"alpha = {src(v)}", "alpha is not n / (n + relevance_factor): the blend is not a convex combination governed by the relevance factor", st.lineno)


def _map_side(test):
    """True when `test` holds exactly for the MAP trainer / an existing prior, False when it holds for the opposite, None otherwise."""
    if isinstance(test, ast.UnaryOp) and isinstance(test.op, ast.Not):
        m = _map_side(test.operand)
        return None if m is None else not m
    if isinstance(test, ast.BoolOp):
        ms = [m for m in (_map_side(v) for v in test.values) if m is not None]
        return ms[0] if ms and all(m == ms[0] for m in ms) else None
    if isinstance(test, ast.Compare) and len(test.ops) == 1:
        l, r, op = test.left, test.comparators[0], test.ops[0]
        for a, b in ((l, r), (r, l)):
            if isinstance(a, (ast.Attribute, ast.Name)) and src(a).split(".")[-1] == "trainer":
                vals = [b.value] if isinstance(b, ast.Constant) else [x.value for x in b.elts if isinstance(x, ast.Constant)] if isinstance(b, (ast.Tuple, ast.List, ast.Set)) else []
                vals = [str(v).lower() for v in vals if isinstance(v, str)]
                if not vals:
                    return None
                pos = isinstance(op, (ast.Eq, ast.In, ast.Is))
                if not pos and not isinstance(op, (ast.NotEq, ast.NotIn, ast.IsNot)):
                    return None
                if "map" in vals and "ml" not in vals:
                    return pos
                if "ml" in vals and "map" not in vals:
                    return not pos
                return None
            if isinstance(a, (ast.Attribute, ast.Name)) and src(a).split(".")[-1] == "ubm" and isinstance(b, ast.Constant) and b.value is None:
                if isinstance(op, (ast.IsNot, ast.NotEq)):
                    return True
                if isinstance(op, (ast.Is, ast.Eq)):
                    return False
    if isinstance(test, (ast.Attribute, ast.Name)) and src(test).split(".")[-1] == "ubm":
        return True
    return None


def check_prior_handover(P, R, key):
    """The prior's parameters are handed over as deep copies, floors first - in the function itself or in a helper method it
    calls on the same object (`self._copy_ubm_parameters()`)."""
    f0 = P.func(key)
    R.analysed(f0)
    scopes = [f0]
    for c in walk_no_nested(f0.node):
        if isinstance(c, ast.Call) and isinstance(c.func, ast.Attribute) and isinstance(c.func.value, ast.Name) and c.func.value.id == f0.self_name:
            for t_ in P.resolve_callee(c.func, f0):
                if t_[0] == "repo" and t_[1] not in scopes and any(isinstance(t2, ast.Attribute) and t2.attr in PRIOR_ATTRS and v2 is not None and ".ubm." in src(v2) for st2, t2, v2, k2 in stores(t_[1])):
                    scopes.append(t_[1])
    found = {}
    for f in scopes:
        du = get_defuse(f, P)
        me = f.self_name
        here = {}
        for st, t, v, k in stores(f):
            if isinstance(t, ast.Attribute) and isinstance(t.value, ast.Name) and t.value.id == me and t.attr in PRIOR_ATTRS and v is not None:
                c = cone(du, v, du.stmt_of(st), interproc=False)
                from_ubm = {a.split(".")[-1] for a in c.attrs if ".ubm." in a}
                if not from_ubm:
                    continue
                here[t.attr] = st
                copied = isinstance(v, ast.Call) and (src(v.func) in ("copy.deepcopy", "deepcopy", "np.array", "np.copy", "numpy.array") or (isinstance(v.func, ast.Attribute) and v.func.attr == "copy"))
                R.check(copied, "OWN.prior-copy", f.key, f"{src(t)} = {src(v)[:50]}", "deep copy of the prior's array", f"the machine's {t.attr} alias the prior's array: later changes to the prior (or to the adapted machine) leak into the other", st.lineno)
                R.check(from_ubm == {t.attr}, "OWN.prior-attr", f.key, f"{src(t)} <- ubm.{sorted(from_ubm)}", "same-named prior attribute", f"{t.attr} initialised from the prior's {sorted(from_ubm)}", st.lineno)
                # polarity: the hand-over sits on the MAP side / the prior-present side of every switch around it
                from ..cfg import enclosing_guards
                for test, pol_ in enclosing_guards(st):
                    m = _map_side(test)
                    if m is None:
                        continue
                    R.check(m == pol_, "BRANCH.prior-side", f.key, f"{src(t)} handed over under `{src(test)[:40]}` ({'then' if pol_ else 'else'} arm)", "the MAP / prior-present side", f"the prior's {t.attr} are handed over on the side of `{src(test)[:40]}` where the trainer is not MAP (or no prior exists); the MAP machine starts from k-means instead of the prior", st.lineno)
        if here:
            check_setter_order(P, R, f, f.node.body, "prior hand-over", "ORDER.floors-first")
        found.update(here)
    for a in PRIOR_ATTRS:
        R.check(a in found, "OWN.prior-complete", key, f"prior {a} handed over", "", f"the prior's {a} are not handed over to the adapted machine")


def run(P, R, tier):
    n, rets = dimrun.route(P, R, ["gmm.map.reynolds", "gmm.map.alpha"], rules=["DIM.", "EXT."], where_prefix=[MAP])
    R.floor("DIM/EXT obligations (MAP M-step)", n, 8)
    guard.check_divisions(P, R, ["gmm.map.reynolds", "gmm.map.alpha"], ("gmm",), rule="GUARD.div")
    check_blend(P, R)
    check_prior_handover(P, R, "gmm:GMMMachine.__init__")
    check_prior_handover(P, R, "gmm:GMMMachine.initialize_gaussians")
    from .C13 import check_weights
    check_weights(P, R)
    from .C03 import check_mstep_wrapper, check_switch_pairing
    check_switch_pairing(P, R, MAP)
    check_mstep_wrapper(P, R)  # MAP trainer -> MAP M-step, with the machine's alpha / relevance factor
    from ..engines import traps as _traps
    _traps.check(P, R, ['gmm'], scope='gmm:(map_gmm_m_step|m_step|GMMMachine\\.(__init__|initialize_gaussians|_\\w+)|_\\w+)$')
    from ..engines import own as _oro
    _own_ro = _oro.Own(P)
    n_ro = 0
    n_ro += _oro.check_param_readonly(P, R, _own_ro, 'gmm:map_gmm_m_step', ['statistics'], why='the statistics / data handed to one step are changed by it: a second step from the same object (several clients adapted from one set of statistics, a repeated call) computes from different values')
    R.floor('OWN.readonly parameters', n_ro, 1)


EXPLANATION += ' Also: numerator / denominator placement and literal coefficients of the three blends, the sign of the squared adapted mean in the no-evidence fallback of the variances, the no-evidence test compares the responsibility mass with the configured threshold, the relevance-factor flag is passed with the right polarity; all of these are followed into a helper when the blend is factored out.'
EXPLANATION += " (BRANCH.prior-side) the prior's parameters are handed over on the MAP / prior-present side of every switch around the hand-over."
