"""C02 — GMM statistics are responsibility-weighted moments, additive over any split."""
from __future__ import annotations

import ast

from ..dataflow import cone, get_defuse, stores
from ..engines import dimrun, fields
from ..frontend import const_value, src, walk_no_nested

EXPLANATION = (
    "Decides, for every data set and every way of splitting it at once, the structural conditions of 'the sum of the parts is the "
    "whole': (FIELDS) the field set {log_likelihood, t, n, sum_px, sum_pxx} of GMMStats is treated exhaustively by __add__ (fresh "
    "result, each field = self.f + other.f), __iadd__ (each field += other.f, returns self, writes nothing into the right operand), "
    "__eq__ / is_similar_to (each field compared, conjunction), init_fields, and the producing E-step assigns every field; "
    "(GUARD) a raising comparison of both shape fields dominates every field access in + and +=; (DIM/EXT) in the E-step every field "
    "is extensive (a sum over the samples: t S, n S[C], sum_px U*S[C,D], sum_pxx U^2*S[C,D], log_likelihood LOG[U^-d]*S) - an average "
    "cannot be additive - and the responsibilities are exp(LOG - LOG), a pure number of shape (C,N); (DEP) the normaliser subtracted "
    "inside exp is the log-sum-exp over the component axis of the same array, so responsibilities sum to one per sample and sum(n) = t; "
    "(COVER) the M-step wrapper folds the whole list of per-block statistics. Floating-point identity of split-and-add vs whole is "
    "not decided."
)
ASSUMPTIONS = ["GMMStats fields are ndarray/scalars whose + is element-wise", "np.exp/np.sum/np.vstack library model"]

SHAPE_FIELDS = ("n_gaussians", "n_features")


def check_responsibility(P, R):
    f = P.func("gmm:e_step")
    R.analysed(f)
    du = get_defuse(f, P)
    # exp(lwl - ll[None, :]) where ll = reduce_loglikelihood(lwl) of the *same* lwl
    found = 0
    for n in walk_no_nested(f.node):
        if isinstance(n, ast.Call) and src(n.func).split(".")[-1] == "exp" and n.args:
            from ..dataflow import resolve_name as _rn

            arg0, st = _rn(du, n.args[0], du.stmt_of(n))
            if not (isinstance(arg0, ast.BinOp) and isinstance(arg0.op, ast.Sub)):
                continue
            found += 1
            l, r = arg0.left, arg0.right
            cr = cone(du, r, st, interproc=False)
            # the subtrahend is the reduction of the minuend
            red = [c for c in cr.nodes if isinstance(c, ast.Call) and src(P.peel_call(c, f)[1]).split(".")[-1] in ("reduce_loglikelihood", "logaddexp_reduce", "logsumexp")]
            same = False
            for c in red:
                arg = c.args[0] if c.args else (c.keywords[0].value if c.keywords else None)
                if arg is not None and isinstance(l, ast.Name) and isinstance(arg, ast.Name) and arg.id == l.id:
                    # same reaching definition
                    d1 = {id(d) for d in du.reaching(st, l.id)}
                    d2 = {id(d) for d in du.reaching(du.stmt_of(c), arg.id)}
                    same = d1 == d2 and bool(d1)
            R.check(same, "DEP.normaliser", f.key, src(n)[:70], "normalised by the log-sum-exp over components of the same array", "the responsibilities are not normalised by the log-sum-exp of the same weighted log-likelihoods: they do not sum to one per sample and sum(n) != t", n.lineno)
    R.floor("DEP.normaliser sites", found, 1)
    # every statistic depends on the responsibilities (n, sum_px, sum_pxx) and on the data (sum_px, sum_pxx)
    need = {"n": ("exp",), "sum_px": ("exp",), "sum_pxx": ("exp",), "log_likelihood": ("reduce_loglikelihood",), "t": ()}
    obj = None
    for st, t, v, k in stores(f):
        if isinstance(t, ast.Attribute) and isinstance(t.value, ast.Name) and t.attr in need:
            c = cone(du, v, du.stmt_of(st), interproc=False)
            for fn in need[t.attr]:
                R.check(any(x.endswith(fn) for x in c.calls), "DEP.moments", f.key, f"{t.attr} derives from {fn}", "", f"statistic {t.attr} does not derive from {fn}", st.lineno)
            if t.attr in ("sum_px", "sum_pxx", "t"):
                R.check(f.value_params[0] in c.params, "DEP.moments", f.key, f"{t.attr} depends on the data", "", f"statistic {t.attr} does not depend on the data", st.lineno)
    # second-order: px * data (the square of the sample, not of the weighted sample)
    for st, t, v, k in stores(f):
        pass


def check_fold(P, R):
    """gmm.m_step adds up the statistics of every block: a recognised whole-list fold (functools.reduce, sum, a loop over the list
    or over an iterator of it, a helper that does one of these) with + / +=."""
    from ..engines import proto as _proto

    f = P.func("gmm:m_step")
    R.analysed(f)
    sp = f.value_params[0]
    v = _proto.fold_whole(P, f, sp)
    what = "reduction of the per-block statistics"
    if v == "partial":
        R.violation("COVER.fold", f.key, what, "the M-step adds up a slice / a single element of the per-block statistics: some blocks never reach the model")
    elif v == "unknown":
        if not any(isinstance(n, ast.Name) and n.id == sp and isinstance(n.ctx, ast.Load) for n in walk_no_nested(f.node)):
            R.violation("COVER.fold", f.key, what, "the per-block statistics are not reduced before the M-step")
        else:
            R.violation("COVER.fold", f.key, what, "the per-block statistics are not reduced before the M-step (no fold over the whole list found)")
    else:
        R.ok("COVER.fold", f.key, what, "whole-list fold")
    # the combining operator is + / += (statistics are additive)
    for n in walk_no_nested(f.node):
        if isinstance(n, ast.Call) and src(n.func).endswith("reduce") and len(n.args) >= 2:
            addop = src(n.args[0]) in ("operator.iadd", "operator.add")
            R.check(addop, "COVER.fold", f.key, src(n), "combined with +", "the per-block statistics are not combined with + / +=", n.lineno)


def run(P, R, tier):
    flds = fields.init_fields_of(P, "GMMStats", SHAPE_FIELDS)
    R.check(set(flds) == {"log_likelihood", "t", "n", "sum_px", "sum_pxx"}, "FIELDS.set", "gmm:GMMStats.__init__", f"fields {flds}", "the five statistics", f"GMMStats no longer holds exactly the five statistics the property names (found {flds})")
    fields.check_add(P, R, "GMMStats", flds)
    fields.check_iadd(P, R, "GMMStats", flds)
    fields.check_shape_guard(P, R, "GMMStats", "__add__", SHAPE_FIELDS, flds)
    fields.check_shape_guard(P, R, "GMMStats", "__iadd__", SHAPE_FIELDS, flds)
    fields.check_compare(P, R, "GMMStats", "__eq__", flds, "FIELDS.eq")
    fields.check_compare(P, R, "GMMStats", "is_similar_to", flds, "FIELDS.similar")
    fields.check_init_fields(P, R, "GMMStats", "init_fields", flds)
    # the E-step assigns every field
    f = P.func("gmm:e_step")
    assigned = {t.attr for st, t, v, k in stores(f) if isinstance(t, ast.Attribute) and isinstance(t.value, ast.Name)}
    for fld in flds:
        R.check(fld in assigned, "FIELDS.e_step", f.key, f"statistics.{fld} assigned", "", f"the E-step never assigns statistic {fld}: it stays at its zero initial value")
    n, rets = dimrun.route(P, R, ["gmm.e_step", "gmm.e_step1", "gmm.acc_stats"], rules=["DIM.", "EXT."], where_prefix=["gmm:e_step", "gmm:log", "gmm:reduce"], exclude_rules=["DIM.CONST"])
    R.floor("DIM/EXT obligations (E-step)", n, 8)
    check_responsibility(P, R)
    check_fold(P, R)
    # IVectorStats: C12 relies on the same exhaustiveness
    iflds = fields.init_fields_of(P, "IVectorStats", ("dim_c", "dim_d", "dim_t"))
    fields.check_add(P, R, "IVectorStats", iflds, rule="FIELDS.add[IVectorStats]")
    fields.check_iadd(P, R, "IVectorStats", iflds, rule="FIELDS.iadd[IVectorStats]")
    from ..engines import buf as _buf
    _buf.check(P, R, ["gmm"])
    from ..engines import carry as _carry
    _carry.check_blocked_loops(P, R, ["gmm"], scope="gmm:(e_step|log_weighted_likelihood|GMMMachine\\.acc_stats|\\w+$)")
    from ..engines import dtype as _dt
    n_dt = _dt.check_function(P, R, "gmm:e_step", raw_params=("data",))
    R.floor("DTYPE.raw sites (gmm e_step)", n_dt, 2)
    from ..engines import proto as _pp
    _pp.check_pairwise_folds(P, R, ['gmm', 'utils'])
    from ..engines import own as _oe
    from . import C19 as _c19
    _c19.check_operator_alias(P, R, _oe.Own(P))
    from ..engines import opt as _opt
    R.floor("OPT default-field selections", _opt.check_function(P, R, "gmm:GMMStats.init_fields"), 3)
    from ..engines import traps as _traps
    _traps.check(P, R, ['gmm'], scope='gmm:(e_step|m_step|GMMStats\\.(__add__|__iadd__|init_fields|reset|resize|__init__|_\\w+)|GMMMachine\\.acc_stats)')
    from ..engines import own as _oe2
    _oe2.check_inplace_views(P, R, _oe2.Own(P), "gmm:e_step")
    from ..engines import own as _oro
    _own_ro = _oro.Own(P)
    n_ro = 0
    n_ro += _oro.check_param_readonly(P, R, _own_ro, 'gmm:ml_gmm_m_step', ['statistics'], why='the statistics / data handed to one step are changed by it: a second step from the same object (several clients adapted from one set of statistics, a repeated call) computes from different values')
    n_ro += _oro.check_param_readonly(P, R, _own_ro, 'gmm:map_gmm_m_step', ['statistics'], why='the statistics / data handed to one step are changed by it: a second step from the same object (several clients adapted from one set of statistics, a repeated call) computes from different values')
    R.floor('OWN.readonly parameters', n_ro, 2)
    from ..engines import proto as _prd
    _prd.check_return_deps(P, R, 'gmm:e_step', pattern=r'^(data|machine)$')
    from ..engines import proto as _pst2
    for f2_ in P.all_funcs(['gmm']):
        if f2_.cls is not None:
            _pst2.check_standins(P, R, f2_.key)


EXPLANATION += " Added after the seeded rounds: (DTYPE.raw) no product / square of the samples is computed in the dtype of the input array; (OWN.iadd-alias) `a += b` stores no array of b into a; (OPT) default statistics fields are selected when the argument is absent, not when it is given; (COVER.fold / COVER.pairs) the M-step folds every block's statistics, and a neighbour-pairing reduction keeps the unpaired element."
EXPLANATION += ' Tree-shaped folds of the block statistics are decided by COVER (every element added exactly once, for every number of blocks).'
EXPLANATION += " (BUF.stale) no scratch buffer is refilled through a prefix view and read whole (rows of the previous block would be added for a ragged last block); DTYPE.raw follows the samples into the helpers of the package that receive them."
