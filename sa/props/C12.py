"""C12 — training from statistics is independent of bag partitioning and scheduling."""
from __future__ import annotations

import ast

from ..dataflow import cone, get_defuse, stores
from ..engines import fields, own as owneng, proto
from ..frontend import const_value, src, walk_no_nested

EXPLANATION = (
    "Decides for every partitioning, task order and executor at once: (COPYBACK) ISV.fit stores the computed U, JFA.fit the computed V, U "
    "and D, and IVectorMachine.fit copies back everything its M-step writes (T and sigma) from the computed machine; (PURE) the per-"
    "partition / per-class tasks (ISV e_step, JFA e_step_v/u/d, i-vector e_step, the statistics accumulators and the per-class latent "
    "kernels) have an empty in-place effect summary on their inputs and on the machine (engine OWN); (COVER) every per-class task list is "
    "built over the whole zip(X, y) and handed whole to the M-step, reduce_iadd folds each list whole, and the i-vector pairwise tree "
    "adds stats[i] and stats[h+i] for i in [0,h), h = len//2, plus the last element (taken before the rebinding) when the length is odd - "
    "index expressions are evaluated as affine forms in (i, h): coverage [0, len) exactly once at every level; (FIELDS) IVectorStats.__add__ "
    "adds every accumulator; (IDX) _prepare_dask_input routes the i-th statistic of the bag (in partition order, counter incremented "
    "once per element, no filter) to the list of class y[i], allocates one list per class and re-derives the per-class labels with "
    "the same class ids; (BRANCH) both arms of the switches call the same kernels with the same argument sources. Equality with list "
    "training is numerical and not decided."
)
ASSUMPTIONS = ["Dask bags: to_delayed() returns the partitions in order, map_partitions(len) their lengths in the same order", "class ids are 0..K-1 (C16)", "OWN library model"]

IV = "ivector:IVectorMachine.fit"


class _Halving:
    """A halving loop `while len(L) > 1: ...` normalised: which names / expressions denote the length and its half."""

    def __init__(self, lp, lst):
        self.lp, self.lst = lp, lst
        self.len_names, self.half_names = set(), set()
        for n in ast.walk(lp):
            if isinstance(n, ast.NamedExpr) and self.is_len(n.value):
                self.len_names.add(n.target.id)
        changed = True
        while changed:
            changed = False
            for st, t, v, k in stores(lp):
                if isinstance(t, ast.Name) and v is not None and k == "assign":
                    if self.is_len(v) and t.id not in self.len_names:
                        self.len_names.add(t.id)
                        changed = True
                    if self.is_half(v) and t.id not in self.half_names:
                        self.half_names.add(t.id)
                        changed = True

    def is_len(self, e):
        if isinstance(e, ast.NamedExpr):
            return self.is_len(e.value)
        if isinstance(e, ast.Name):
            return e.id in self.len_names
        return isinstance(e, ast.Call) and src(e.func) == "len" and len(e.args) == 1 and src(e.args[0]) == self.lst

    def is_half(self, e):
        if isinstance(e, ast.Name):
            return e.id in self.half_names
        return isinstance(e, ast.BinOp) and isinstance(e.op, ast.FloorDiv) and self.is_len(e.left) and const_value(e.right) == 2

    def affine(self, e, i):
        """(coef_i, coef_half, coef_len, const) of an index expression; None if not affine in those."""
        if self.is_half(e):
            return (0, 1, 0, 0)
        if self.is_len(e):
            return (0, 0, 1, 0)
        if isinstance(e, ast.Name):
            return (1, 0, 0, 0) if e.id == i else None
        if isinstance(e, ast.Constant) and isinstance(e.value, int) and not isinstance(e.value, bool):
            return (0, 0, 0, e.value)
        if isinstance(e, ast.UnaryOp) and isinstance(e.op, ast.USub):
            a = self.affine(e.operand, i)
            return None if a is None else tuple(-x for x in a)
        if isinstance(e, ast.BinOp) and isinstance(e.op, (ast.Add, ast.Sub)):
            a, b = self.affine(e.left, i), self.affine(e.right, i)
            if a is None or b is None:
                return None
            s_ = 1 if isinstance(e.op, ast.Add) else -1
            return tuple(x + s_ * y for x, y in zip(a, b))
        return None

    def is_odd_test(self, t):
        """`len % 2 != 0` / `== 1` / truthy `len % 2` / `len & 1`"""
        def parity(e):
            return isinstance(e, ast.BinOp) and ((isinstance(e.op, ast.Mod) and const_value(e.right) == 2) or (isinstance(e.op, ast.BitAnd) and const_value(e.right) == 1)) and self.is_len(e.left)
        if parity(t):
            return True
        if isinstance(t, ast.Compare) and len(t.ops) == 1 and parity(t.left):
            c = const_value(t.comparators[0])
            return (isinstance(t.ops[0], ast.NotEq) and c == 0) or (isinstance(t.ops[0], ast.Eq) and c == 1) or (isinstance(t.ops[0], ast.Gt) and c == 0)
        return False

    def is_last(self, e):
        if not (isinstance(e, ast.Subscript) and src(e.value) == self.lst):
            return False
        if const_value(e.slice) == -1 or (isinstance(e.slice, ast.UnaryOp) and isinstance(e.slice.op, ast.USub) and const_value(e.slice.operand) == 1):
            return True
        return self.affine(e.slice, None) in ((0, 0, 1, -1), (0, 2, 0, 0))


def _tree_scopes(P, f):
    """The function itself plus the helpers it hands a list to that contain a `while len(...) > 1` loop: [(func, via call or None)]"""
    out = [(f, None)]
    for c in walk_no_nested(f.node):
        if isinstance(c, ast.Call):
            for t_ in P.resolve_callee(c.func, f):
                if t_[0] == "repo" and any(isinstance(n, ast.While) and "len(" in src(n.test) for n in walk_no_nested(t_[1].node)):
                    out.append((t_[1], c))
    return out


def check_tree(P, R):
    """IVectorMachine.fit reduces the per-partition statistics to one object by a halving tree: every round pairs element i with element
    half + i for i in [0, half) with the non-mutating +, carries the last element over when the count is odd, and runs until one
    element is left; that element is what the M-step receives.  The loop may live in fit or in a helper; the new list may be built
    by a comprehension or by a for loop that appends."""
    f = P.func(IV)
    R.analysed(f)
    scopes = _tree_scopes(P, f)
    found = [(g, via, n) for g, via in scopes for n in walk_no_nested(g.node) if isinstance(n, ast.While) and "len(" in src(n.test)]
    if not found:
        # an alternative: all statistics handed to one reducing task
        ok = any(isinstance(c, ast.Call) and src(c.func).endswith("reduce") for c in walk_no_nested(f.node))
        R.check(ok, "COVER.tree", IV, "reduction of the per-partition statistics", "single reduction", "the per-partition statistics are not reduced before the M-step")
        return
    for g, via, lp in found:
        du = get_defuse(g, P)
        lst = None
        for n in ast.walk(lp.test):
            if isinstance(n, ast.Call) and src(n.func) == "len" and n.args and isinstance(n.args[0], ast.Name):
                lst = n.args[0].id
        H = _Halving(lp, lst)
        t = lp.test
        gt1 = isinstance(t, ast.Compare) and len(t.ops) == 1 and H.is_len(t.left) and ((isinstance(t.ops[0], ast.Gt) and const_value(t.comparators[0]) == 1) or (isinstance(t.ops[0], ast.GtE) and const_value(t.comparators[0]) == 2) or (isinstance(t.ops[0], ast.NotEq) and const_value(t.comparators[0]) == 1))
        R.check(gt1, "COVER.tree-loop", g.key, f"while {src(t)}", "reduces until one element is left", "the pairwise reduction does not run until a single element is left", lp.lineno)
        # ---- every round consumes every element exactly once (COVER engine: affine tiling of the round's index runs) ----------
        from ..engines import cover as _cover
        v_, why_ = _cover.check_rounds(P, g, lp, lst)
        if v_ == "ok":
            R.ok("COVER.tree-cover", g.key, f"rounds of `while {src(t)}`", why_, lp.lineno)
        elif v_ == "violation":
            R.violation("COVER.tree-cover", g.key, f"rounds of `while {src(t)}`", f"a round of the pairwise reduction does not pass every element on exactly once: {why_}; one partition's statistics never reach (or reach twice) the M-step", lp.lineno)
        else:
            R.undecided("COVER.tree", g.key, "pairwise round", why_ or "the construction of the next round's list was not recognised")
            continue
        # ---- pairs are combined with the non-mutating + in a task (the operands are Delayed objects shared with other rounds) ----
        rd = _cover._Round(P, g, lp, lst)
        n_op = 0
        for c in walk_no_nested(lp):
            if not isinstance(c, ast.Call):
                continue
            fx = c.func
            if isinstance(fx, ast.Name) and not (P.dotted(fx, g) or "").startswith("operator."):
                ds = rd.defs.get(fx.id) or rd.outer.get(fx.id)
                if ds and len(ds) == 1:
                    fx = ds[0]
            if not rd.is_adder(fx) or not c.args:
                continue
            inner = fx.args[0] if isinstance(fx, ast.Call) and src(fx.func).split(".")[-1] == "delayed" and fx.args else None
            if inner is None and isinstance(fx, ast.Call):
                continue
            if inner is None:
                kind, fexpr, args, kws = P.peel_call(c, g)
                task, opx = kind == "task", fexpr
            else:
                task, opx = True, inner
            if isinstance(opx, ast.Call):
                continue
            n_op += 1
            addop = (P.dotted(opx, g) or "") in ("operator.add",)
            R.check(addop and task, "COVER.tree-op", g.key, src(c)[:70], "pairs are combined with the non-mutating + in a task", "pairs are not combined with operator.add in a task", c.lineno)
        R.floor(f"COVER.tree-op sites ({g.key})", n_op, 1)
        # ---- the root: element 0 after the loop is returned (helper) / reaches the M-step ---------------------------------------
        if via is not None:
            rets = [r for r in walk_no_nested(g.node) if isinstance(r, ast.Return) and r.value is not None]
            okr = bool(rets) and all(isinstance(r.value, ast.Subscript) and src(r.value.value) == lst and const_value(r.value.slice) == 0 for r in rets)
            R.check(okr, "COVER.tree-root", g.key, f"return {src(rets[0].value) if rets else None}", "the single remaining element", "the helper does not return the root of the reduction tree")
    # the reduced element is what the M-step receives
    fdu = get_defuse(f, P)
    helper_calls = [via for g, via, lp in found if via is not None]
    for c in walk_no_nested(f.node):
        if isinstance(c, ast.Call):
            kind, fexpr, args, kws = P.peel_call(c, f)
            if kind == "task" and src(fexpr) == "m_step":
                a = args[1] if len(args) > 1 else None
                cc = cone(fdu, a, fdu.stmt_of(c), interproc=False) if a is not None else None
                ok = cc is not None and (any(isinstance(n, ast.Subscript) and const_value(n.slice) == 0 for n in cc.nodes) or any(hc in cc.nodes for hc in helper_calls))
                R.check(ok, "COVER.tree-root", IV, f"m_step(..., {src(a) if a is not None else None})", "the single remaining element", "the M-step does not receive the root of the reduction tree", c.lineno)


def check_partition_list(P, R):
    """The partition list that feeds the per-partition E-step tasks is the bag's own list of partitions; if it is re-grouped by
    slices, the groups must cover every partition (a count of `len // k` groups of width k loses the remainder)."""
    f = P.func(IV)
    du = get_defuse(f, P)
    for n in walk_no_nested(f.node):
        if not isinstance(n, ast.ListComp):
            continue
        if not any(isinstance(c, ast.Call) and P.peel_call(c, f)[0] == "task" and src(P.peel_call(c, f)[1]) == "e_step" for c in ast.walk(n.elt)):
            continue
        it = n.generators[0].iter
        if not isinstance(it, ast.Name):
            R.undecided("COVER.partitions", IV, src(it)[:50], "E-step tasks are not built over a named partition list")
            continue
        st = du.stmt_of(n)
        for d in du.reaching(st, it.id):
            v = d.value
            what = f"{it.id} <- `{src(d.stmt)[:70] if hasattr(d.stmt, 'lineno') else d.how}`"
            if d.how == "param":
                R.ok("COVER.partitions", IV, what, "the caller's list")
            elif d.how == "assign" and isinstance(v, ast.Call) and isinstance(v.func, ast.Attribute) and v.func.attr == "to_delayed":
                R.ok("COVER.partitions", IV, what, "all partitions of the bag", d.stmt.lineno)
            elif d.how == "assign" and isinstance(v, ast.ListComp):
                g = v.generators[0]
                slices = [x for x in ast.walk(v.elt) if isinstance(x, ast.Subscript) and isinstance(x.slice, ast.Slice)]
                rng = g.iter
                floor_count = isinstance(rng, ast.Call) and src(rng.func) == "range" and len(rng.args) == 1 and isinstance(rng.args[0], ast.BinOp) and isinstance(rng.args[0].op, ast.FloorDiv)
                stepped = isinstance(rng, ast.Call) and src(rng.func) == "range" and len(rng.args) == 3
                if slices and floor_count:
                    R.violation("COVER.partitions", IV, what, f"the partitions are re-grouped into `{src(rng.args[0])}` slices of fixed width: when the number of partitions is not a multiple of the width the trailing partitions belong to no group and never reach an E-step", d.stmt.lineno)
                elif slices and stepped:
                    R.ok("COVER.partitions", IV, what, "range(0, n, k) slices cover every partition", d.stmt.lineno)
                else:
                    R.undecided("COVER.partitions", IV, what, "re-grouping of the partition list not recognised")
            else:
                R.undecided("COVER.partitions", IV, what, "origin of the partition list not recognised")


def check_prepare(P, R):
    key = "factor_analysis:FactorAnalysisBase._prepare_dask_input"
    f = P.func(key)
    R.analysed(f)
    du = get_defuse(f, P)
    outer = [n for n in walk_no_nested(f.node) if isinstance(n, ast.For) and isinstance(n.iter, ast.Call) and src(n.iter.func) == "zip"]
    if not outer:
        R.error(f"{key}: loop over zip(lengths, delayeds) not found")
        return
    lp = outer[0]
    inner = [n for n in walk_no_nested(lp) if isinstance(n, ast.For) and n is not lp]
    R.check(len(inner) == 1, "IDX.route", key, "one loop over the elements of each partition", "", "elements of a partition are not visited by exactly one inner loop")
    bad = [n for n in walk_no_nested(lp) if isinstance(n, (ast.Break, ast.Continue, ast.If))]
    R.check(not bad, "IDX.route", key, "no filter / early exit while routing", "", "statistics are filtered or the routing loop exits early: some elements never reach training", lp.lineno)
    if not inner:
        return
    il = inner[0]
    elem = il.target.id if isinstance(il.target, ast.Name) else None
    # counter: initialised 0, += 1 exactly once per element
    incs = [n for n in walk_no_nested(il) if isinstance(n, ast.AugAssign) and isinstance(n.op, ast.Add) and const_value(n.value) == 1 and isinstance(n.target, ast.Name)]
    R.check(len(incs) == 1 and incs[0] in il.body, "IDX.route-counter", key, "element counter += 1 once per element", "", "the running element index is not advanced exactly once per statistic", il.lineno)
    ctr = incs[0].target.id if incs else None
    init0 = False
    for st, t, v, k in stores(f):
        if isinstance(t, ast.Name) and t.id == ctr and const_value(v) == 0 and not any(st is x for x in walk_no_nested(lp)):
            init0 = True
        if isinstance(t, ast.Tuple):
            pass
    for n in walk_no_nested(f.node):
        if isinstance(n, ast.Assign) and isinstance(n.targets[0], ast.Tuple) and isinstance(n.value, ast.Tuple):
            for tt, vv in zip(n.targets[0].elts, n.value.elts):
                if isinstance(tt, ast.Name) and tt.id == ctr and const_value(vv) == 0:
                    init0 = True
    R.check(init0, "IDX.route-counter", key, f"{ctr} starts at 0", "", "the running element index does not start at 0")
    # class_id = y[ctr]; X[class_id].append(elem)
    cls_name = None
    for st, t, v, k in stores(il):
        if isinstance(t, ast.Name) and isinstance(v, ast.Subscript) and isinstance(v.slice, ast.Name) and v.slice.id == ctr:
            cls_name = t.id
            R.ok("IDX.route-label", key, src(st), "label of the i-th statistic")
    apps = [c for c in walk_no_nested(il) if isinstance(c, ast.Call) and isinstance(c.func, ast.Attribute) and c.func.attr == "append"]
    ok = False
    for c in apps:
        recv = c.func.value
        if isinstance(recv, ast.Subscript) and isinstance(recv.slice, ast.Name) and recv.slice.id == cls_name and c.args and isinstance(c.args[0], ast.Name) and c.args[0].id == elem:
            ok = True
            # increment after the label was read
            if incs:
                rd_before = du.cfg.reach_avoiding(du.stmt_of(c), incs[0], {il}) or True
    R.check(ok and cls_name is not None, "IDX.route-label", key, f"X[{cls_name}].append({elem})", "routed to the list of its own class", "a statistic is not appended to the list of the class given by its own label")
    if incs and cls_name:
        lab_st = next(st for st, t, v, k in stores(il) if isinstance(t, ast.Name) and t.id == cls_name)
        R.check(du.cfg.reach_avoiding(lab_st, incs[0], {il}) and not du.cfg.reach_avoiding(incs[0], lab_st, {il}), "IDX.route-counter", key, "label read before the counter advances", "", "the counter advances before the label is read: every statistic gets its successor's label")
    # per-class labels use the same class ids as the per-class lists: both range over the same count expression
    def empty_lists(v):
        return isinstance(v, ast.ListComp) and isinstance(v.elt, ast.List) and not v.elt.elts and isinstance(v.generators[0].iter, ast.Call) and src(v.generators[0].iter.func) == "range" and len(v.generators[0].iter.args) == 1
    alloc_rng = None
    for n in walk_no_nested(f.node):
        if isinstance(n, ast.Assign):
            vals = n.value.elts if isinstance(n.value, ast.Tuple) else [n.value]
            for vv in vals:
                if empty_lists(vv):
                    alloc_rng = src(vv.generators[0].iter.args[0])
    R.check(alloc_rng is not None, "IDX.route-alloc", key, f"one list per class: [[] for _ in range({alloc_rng})]", "", "the per-class lists are not allocated one per class")
    if alloc_rng is not None:
        # the count is the number of distinct labels
        cnt_ok = False
        for st, t, v, k in stores(f):
            if isinstance(t, ast.Name) and t.id == alloc_rng and isinstance(v, ast.Call) and src(v.func) == "len" and v.args:
                a0 = v.args[0]
                if isinstance(a0, ast.Name):
                    # len(t) with t = set(y) assigned just before
                    du_ = get_defuse(f, P)
                    rd_ = du_.reaching(du_.stmt_of(st), a0.id)
                    if len(rd_) == 1 and rd_[0].value is not None and rd_[0].how == "assign":
                        a0 = rd_[0].value
                if isinstance(a0, ast.Call) and src(a0.func).split(".")[-1] in ("set", "unique", "unique_labels"):
                    cnt_ok = True
        R.check(cnt_ok, "IDX.route-alloc", key, f"{alloc_rng} = number of distinct labels", "", "the number of per-class lists is not the number of distinct labels")
    ok_y = False
    for st, t, v, k in stores(f):
        if isinstance(t, ast.Name) and isinstance(v, ast.ListComp) and len(v.generators) == 1:
            g = v.generators[0]
            if isinstance(g.iter, ast.Call) and src(g.iter.func) == "range" and len(g.iter.args) == 1 and src(g.iter.args[0]) == alloc_rng and isinstance(g.target, ast.Name) and isinstance(v.elt, ast.Subscript) and isinstance(v.elt.slice, ast.Compare) and isinstance(v.elt.slice.ops[0], ast.Eq) and g.target.id in {x.id for x in ast.walk(v.elt.slice) if isinstance(x, ast.Name)} and src(v.elt.value) == src(v.elt.slice.left if not (isinstance(v.elt.slice.left, ast.Name) and v.elt.slice.left.id == g.target.id) else v.elt.slice.comparators[0]):
                ok_y = True
    R.check(ok_y, "IDX.route-labels", key, f"labels regrouped as [y[y == c] for c in range({alloc_rng})]", "same class ids, same order as the per-class statistics", "the per-class labels are not regrouped with the same class ids (and order) as the per-class statistics")
    # lengths and partitions in the same order
    za = lp.iter.args
    c0 = cone(du, za[0], lp, interproc=False) if za else None
    c1 = cone(du, za[1], lp, interproc=False) if len(za) > 1 else None
    ok_len = c0 is not None and any(x.endswith("map_partitions") for x in c0.calls) and c1 is not None and any(x.endswith("to_delayed") for x in c1.calls)
    R.check(ok_len, "IDX.route-partitions", key, f"zip({', '.join(src(a) for a in za)})", "partition lengths paired with the partitions", "partition lengths and partitions are not both derived from the same bag")
    if ok_len:
        # ... of the *same* bag: the collection whose partitions are measured is the one whose partitions are walked
        from ..dataflow import resolve_name as _rn12
        def recv_of(cn, meth):
            out = []
            for x in cn.nodes:
                if isinstance(x, ast.Call) and isinstance(x.func, ast.Attribute) and x.func.attr == meth:
                    try:
                        st_ = du.stmt_of(x)
                    except Exception:
                        st_ = None
                    out.append((x.func.value, st_ if st_ is not None else lp))
            return out
        r0, r1 = recv_of(c0, "map_partitions"), recv_of(c1, "to_delayed")
        def ident(e_, s_):
            if isinstance(e_, ast.Name):
                return (e_.id, tuple(sorted(id(d) for d in du.reaching(s_, e_.id))))
            return ("expr", src(e_))
        same_bag = bool(r0) and bool(r1) and all(isinstance(e_, ast.Name) for e_, s_ in r0 + r1) and len({ident(e_, s_) for e_, s_ in r0 + r1}) == 1
        R.check(same_bag, "IDX.route-partitions", key, f"lengths of `{src(r0[0][0])[:30] if r0 else '?'}` walk the partitions of `{src(r1[0][0])[:30] if r1 else '?'}`", "the partitions measured are the partitions walked", f"the partition lengths are taken from `{src(r0[0][0])[:60] if r0 else '?'}` but the partitions walked are those of `{src(r1[0][0])[:30] if r1 else '?'}`: when the two collections are partitioned differently (a labels bag with other partition sizes) the running index pairs statistics with the wrong labels", lp.lineno)


def check_reduce_iadd(P, R):
    """reduce_iadd(*lists) folds every element of each list (functools.reduce, sum, a loop, or a helper that does)."""
    f = P.func("factor_analysis:reduce_iadd")
    R.analysed(f)
    loopvars = [n.target.id for n in walk_no_nested(f.node) if isinstance(n, ast.For) and isinstance(n.target, ast.Name) and isinstance(n.iter, ast.Name) and n.iter.id == (f.vararg or "")]
    loopvars += [g.target.id for n in walk_no_nested(f.node) if isinstance(n, (ast.ListComp, ast.GeneratorExp)) for g in n.generators if isinstance(g.target, ast.Name) and isinstance(g.iter, ast.Name) and g.iter.id == (f.vararg or "") and not g.ifs]
    if not loopvars:
        R.undecided("COVER.reduce_iadd", f.key, "each list of *args is folded", "no loop over the argument lists found")
        return
    for lv in loopvars:
        v = proto.fold_whole(P, f, lv)
        what = f"each list `{lv}` is folded whole"
        if v == "whole":
            R.ok("COVER.reduce_iadd", f.key, what, "recognised whole-list fold")
        elif v == "partial":
            R.violation("COVER.reduce_iadd", f.key, what, "reduce_iadd folds a slice / a single element of each list: some per-class accumulators never reach the M-step")
        else:
            R.undecided("COVER.reduce_iadd", f.key, what, "the list is consumed in a way the rule does not recognise")


def run(P, R, tier):
    own = owneng.Own(P)
    sites = {
        "factor_analysis:ISVMachine.fit": ("m_step",),
        "factor_analysis:JFAMachine.fit": ("m_step_v", "m_step_u", "m_step_d"),
        IV: ("m_step",),
        "factor_analysis:FactorAnalysisBase.initialize": (),
        "factor_analysis:FactorAnalysisBase.compute_latent_x": (),
        "factor_analysis:FactorAnalysisBase.update_y": (),
    }
    nb = ncb = npure = 0
    for key, sinks in sites.items():
        nb += proto.check_branch(P, R, proto.site_func(P, key))
        ncb += proto.check_copyback(P, R, own, proto.site_func(P, key), sinks)
        npure += proto.check_tasks_pure(P, R, own, proto.site_func(P, key), sinks)
        proto.check_cover_tasks(P, R, proto.site_func(P, key))
    R.floor("BRANCH sites", nb, 8)
    R.floor("COPYBACK sinks", ncb, 5)
    R.floor("PURE tasks", npure, 9)
    # reduce_iadd folds each list whole
    check_reduce_iadd(P, R)
    for key, ms in (("factor_analysis:ISVMachine.m_step", 1), ("factor_analysis:JFAMachine.m_step_v", 1), ("factor_analysis:JFAMachine.m_step_u", 1), ("factor_analysis:JFAMachine.m_step_d", 1)):
        g = P.func(key)
        prm = g.value_params[0]
        def whole_collections(fn_, prm_, depth=0):
            n_ = 0
            for v in walk_no_nested(fn_.node):
                # bound to a name or written in place as an argument: either way a collection over every element of the list
                if isinstance(v, ast.ListComp) and len(v.generators) == 1 and isinstance(v.generators[0].iter, ast.Name) and v.generators[0].iter.id == prm_ and not v.generators[0].ifs and isinstance(v.elt, ast.Subscript):
                    n_ += 1
            if depth < 2:
                # ... or in a helper that receives the whole list
                for c_ in walk_no_nested(fn_.node):
                    if isinstance(c_, ast.Call) and any(isinstance(a_, ast.Name) and a_.id == prm_ for a_ in c_.args):
                        for t_ in P.resolve_callee(c_.func, fn_):
                            if t_[0] == "repo":
                                b_ = P.bind_args(t_[1], c_.args, c_.keywords)
                                pn_ = next((p_ for p_, a_ in b_.items() if isinstance(a_, ast.Name) and a_.id == prm_), None)
                                if pn_:
                                    n_ += whole_collections(t_[1], pn_, depth + 1)
            return n_

        whole = whole_collections(g, prm)
        R.check(whole >= 2, "COVER.mstep", key, f"both accumulators collected from every element of {prm}", "", f"the M-step does not collect both accumulators from every per-class result in {prm}")
    check_tree(P, R)
    check_partition_list(P, R)
    from .C10 import check_every_sample_accumulated
    check_every_sample_accumulated(P, R)
    flds = fields.init_fields_of(P, "IVectorStats", ("dim_c", "dim_d", "dim_t"))
    fields.check_add(P, R, "IVectorStats", flds, rule="FIELDS.add[IVectorStats]")
    check_prepare(P, R)
    from ..engines import idx as _idx
    _idx.check_class_select(P, R, "factor_analysis:FactorAnalysisBase._get_statistics_by_class_id")
    from ..engines import proto as _pp
    _pp.check_pairwise_folds(P, R, ['factor_analysis', 'ivector', 'utils'])
    from ..engines import traps as _traps
    _traps.check(P, R, ['factor_analysis', 'ivector'], scope='(factor_analysis:(FactorAnalysisBase\\._prepare_dask_input|ISVMachine\\.(fit|e_step|m_step)|JFAMachine\\.(fit|e_step_\\w|m_step_\\w)|reduce_iadd|_\\w+)|ivector:(IVectorMachine\\.fit|e_step|m_step|_\\w+))')
    from ..engines import proto as _pst
    _pst.check_standins(P, R, 'ivector:IVectorMachine.fit')


EXPLANATION += ' Also: the halving tree is decided on a normalised form of the loop (length / half expressions, new list by comprehension or appended in a for loop, odd carry taken from the old list), in fit or in a fold helper; (COVER.pairs) neighbour-pairing reductions keep the unpaired element.'
EXPLANATION += " (COVER.tree-cover) each round of the pairwise tree passes every element on exactly once: the round's index runs (ranges, slices, zip of slices, carried element) tile [0, len) for every length - affine tiling after a parity split, closed forms evaluated for small lengths; no code is executed."
