"""C07 — ISV and JFA enrolment climbs to the joint posterior mode of the latent factors."""
from __future__ import annotations

import ast

from ..dataflow import cone, get_defuse, stores
from ..engines import pol, seq
from ..frontend import src, walk_no_nested

EXPLANATION = (
    "Decides, for every model and every enrolment input at once, the structural conditions of block-coordinate ascent under "
    "mean = m + V y + U x_h + D z: (POL) in the four residual kernels every model term enters the residual with the sign the "
    "model equation dictates (first-order statistics +, every conditioning block -), every conditioning block is present, "
    "and the per-session channel term U x_h is weighted by that session's own counts, not by the class total; (PREC) each "
    "posterior precision is identity (the standard-normal prior) plus a positive count-weighted projection term and is "
    "inverted; (SEQ) both enrolment loops run enroll_iterations passes, update every block of the model once per pass, "
    "call each update with the most recent value of the other blocks (reaching definitions: a stale argument turns "
    "Gauss-Seidel into Jacobi) and return the last values; (ARGROLE) at every call between kernels each argument feeds "
    "the parameter of the same role. Monotone ascent and convergence to the mode are numerical and are not decided; the "
    "order of the blocks within a pass is deliberately not constrained."
)
ASSUMPTIONS = [
    "np.repeat/flatten/reshape/array are sign-transparent; products and @ keep the sign of both factors (POL domain)",
    "class statistics X_i iterate over sessions; parameters of the kernels are identified by position",
]

FA = "factor_analysis:FactorAnalysisBase."
MEAN = ["mean_supervector", "ubm.means"]


def rows_for(f, name):
    vp = f.value_params
    if name == "_compute_fn_x_ih":
        x_i = vp[0]
        return [
            dict(atoms=[f"{x_i}.sum_px"], sign="+", why="first-order statistics of the session"),
            dict(atoms=MEAN, sign="-", with_=[f"{x_i}.n"], why="N_h m is subtracted"),
            dict(atoms=["_D"], sign="-", with_=[f"{x_i}.n"], why="N_h D z is subtracted when z is given"),
            dict(atoms=["_V"], sign="-", with_=[f"{x_i}.n"], why="N_h V y is subtracted when y is given"),
        ]
    if name == "_compute_fn_z_i":
        X_i, lx, ly, n_acc, f_acc = vp[:5]
        return [
            dict(atoms=[f_acc], sign="+", why="class first-order statistics"),
            dict(atoms=MEAN, sign="-", with_=[n_acc], why="N m is subtracted"),
            dict(atoms=["_V"], sign="-", with_=[n_acc], why="N V y is subtracted"),
            dict(atoms=["_U"], sign="-", with_=[f"{X_i}[*].n"], without=[n_acc], why="sum_h N_h U x_h is subtracted with each session's own counts"),
        ]
    if name == "_compute_fn_y_i":
        X_i, lx, lz, n_acc, f_acc = vp[:5]
        return [
            dict(atoms=[f_acc], sign="+", why="class first-order statistics"),
            dict(atoms=MEAN, sign="-", with_=[n_acc], why="N m is subtracted"),
            dict(atoms=["_D"], sign="-", with_=[n_acc], why="N D z is subtracted (residual = F - N(m + D z) - sum_h N_h U x_h)"),
            dict(atoms=["_U"], sign="-", with_=[f"{X_i}[*].n"], without=[n_acc], why="sum_h N_h U x_h is subtracted with each session's own counts"),
        ]
    if name == "_compute_fn_x":
        X_i = vp[0]
        return [
            dict(atoms=[f"{X_i}[*].sum_px"], sign="+", why="pooled first-order statistics"),
            dict(atoms=MEAN, sign="-", with_=["*[*].n"], why="N m is subtracted (the pooled counts of the probe's statistics, summed here or by the caller)"),
        ]
    return []


def check_residuals(P, R):
    from ..engines import dimrun
    n, _ = dimrun.route(P, R, ["fa.fn_x", "fa.fn_x_ih", "fa.fn_z_i", "fa.fn_y_i", "fa.latent_x_i", "fa.update_z", "fa.update_y"], rules=["DIM.", "EXT."], where_prefix=["factor_analysis:"])
    R.floor("DIM/EXT obligations (residual kernels)", n, 8)
    for name in ("_compute_fn_x_ih", "_compute_fn_z_i", "_compute_fn_y_i", "_compute_fn_x"):
        f = P.func(FA + name)
        R.analysed(f)
        p = pol.Pol(P, f)
        p.expand_params = True
        t = list(dict.fromkeys(p.value_terms()))
        for row in rows_for(f, name):
            pol.check_row(R, "POL.residual", f.key, t, row)
        # every factor of the residual multiplies (N, m, D z, V y, U x): a quotient changes the mode, not only the scale
        pi = pol.Pol(P, f, track_inv=True)
        it = list(dict.fromkeys(pi.value_terms()))
        inv_atoms = sorted({x for s_, a in it for x in a if x.startswith("1/")})
        R.check(not inv_atoms, "POL.residual-placement", f.key, "all factors of the residual multiply", "", f"{inv_atoms[:3]} divide(s) in the residual F - N (m + D z + V y + U x)")


PRECISIONS = {
    # function -> (projection atom, count atom as value-param index or suffix)
    "_compute_id_plus_u_prod_ih": ("p1", "p0.n"),
    "_compute_id_plus_d_prod_i": ("p0", "p1"),
    "_compute_id_plus_vprod_i": ("p1", "p0"),
    "_compute_id_plus_us_prod_inv": ("_U", "p0[*].n"),
}


def _param_arg_atoms(P, f, pname):
    """Atoms of the expressions that the package's call sites pass for parameter `pname` of f (union over call sites); None if some
    call site passes nothing traceable."""
    atoms = set()
    n_sites = 0
    for g in P.all_funcs():
        for c in walk_no_nested(g.node):
            if not isinstance(c, ast.Call):
                continue
            fexpr = P.peel_call(c, g)[1]
            if not any(t_[0] == "repo" and t_[1] is f for t_ in P.resolve_callee(fexpr, g)):
                continue
            b = P.bind_args(f, P.peel_call(c, g)[2], P.peel_call(c, g)[3])
            if pname not in b:
                continue  # default used at this site
            n_sites += 1
            pg = pol.Pol(P, g)
            for s_, a in pg.terms(b[pname], pg.du.stmt_of(c)):
                atoms |= set(a)
    return atoms if n_sites else None


def check_precisions(P, R, only=None):
    for name, (proj, cnt) in PRECISIONS.items():
        if only is not None and name not in only:
            continue
        f = P.func(FA + name)
        R.analysed(f)
        vp = f.value_params

        def res(s):
            for i, v in enumerate(vp):
                s = s.replace(f"p{i}", v)
            return s

        proj_a, cnt_a = res(proj), res(cnt)
        p = pol.Pol(P, f)
        # the inverted quantity: argument of inv(...) or the denominator of 1/x
        inverted = []
        for n in walk_no_nested(f.node):
            if isinstance(n, ast.Call) and src(n.func).split(".")[-1] in ("inv", "pinv") and n.args:
                inverted.append((n.args[0], n))
            if isinstance(n, ast.BinOp) and isinstance(n.op, ast.Div) and isinstance(n.left, ast.Constant) and n.left.value == 1:
                inverted.append((n.right, n))
        rets = [r for r in walk_no_nested(f.node) if isinstance(r, ast.Return) and r.value is not None]
        if not inverted:
            R.violation("PREC.inverse", f.key, "posterior covariance", "the precision is not inverted (no inv(...) / 1/x): the update multiplies by the precision instead of the covariance")
            continue
        for e, node in inverted:
            st = p.du.stmt_of(node)
            t = list(dict.fromkeys(p.terms(e, st)))
            ident = [x for x in t if x[0] == 1 and not x[1]]
            R.check(bool(ident), "PREC.prior", f.key, f"identity term in `{src(e)[:60]}`", "standard-normal prior precision", "the identity (prior precision of the standard-normal latent) is missing from the posterior precision: the estimate is maximum-likelihood, not the posterior mode", node.lineno)
            dat = [x for x in t if x[1] and any(pol._match(a, [proj_a]) for a in x[1])]
            if not dat:
                R.violation("PREC.data", f.key, f"{proj_a} term in `{src(e)[:60]}`", "data term of the posterior precision is missing", node.lineno)
                continue
            pos = all(x[0] == 1 for x in dat)
            def counted(term):
                if any(pol._match(a, [cnt_a]) for a in term[1]):
                    return True
                # an optional parameter that carries the (pooled) counts computed by the caller
                for a in term[1]:
                    if a in f.params and a != f.self_name:
                        got = _param_arg_atoms(P, f, a)
                        if got and any(x.endswith(".n") for x in got):
                            return True
                return False

            wcnt = all(counted(x) for x in dat)
            R.check(pos, "PREC.data", f.key, f"+ {proj_a}·{cnt_a}", pol.fmt_terms(dat), f"data term enters the precision with the wrong sign: {pol.fmt_terms(dat)}", node.lineno)
            R.check(wcnt, "PREC.data", f.key, f"{proj_a} weighted by {cnt_a}", pol.fmt_terms(dat), f"projection term is not weighted by the counts {cnt_a}: {pol.fmt_terms(dat)}", node.lineno)
            # counts and projections multiply, the UBM variances divide
            pi = pol.Pol(P, f, track_inv=True)
            it = list(dict.fromkeys(pi.terms(e, st)))
            pol.check_inverse(R, "PREC.placement", f.key, it, inverted=["variances", "_variances"], direct=[cnt_a, proj_a] + [p_ for p_ in f.value_params], what=f"precision `{src(e)[:50]}`: counts multiply, variances divide", line=node.lineno)
        # the function returns the inverted quantity
        du = p.du
        for r in rets:
            c = cone(du, r.value, r, interproc=False)
            ok = any(node in c.nodes for _e, node in inverted)
            R.check(ok, "PREC.inverse", f.key, f"return {src(r.value)[:40]}", "returns the posterior covariance", "the returned value is not the inverted precision", r.lineno)


def check_latent_updates(P, R):
    """The three latent updates combine covariance, projected precision-weighted residual, and the residual kernel."""
    specs = [
        ("_compute_latent_x_per_class", "_compute_id_plus_u_prod_ih", "_compute_fn_x_ih", "UTinvSigma"),
        ("_latent_y_per_class", "_compute_id_plus_vprod_i", "_compute_fn_y_i", "VTinvSigma"),
        ("update_z", "_compute_id_plus_d_prod_i", "_compute_fn_z_i", None),
    ]
    for name, prec, resid, proj in specs:
        f = P.func(FA + name)
        R.analysed(f)
        du = get_defuse(f, P)
        outs = []
        for r in walk_no_nested(f.node):
            if isinstance(r, ast.Return) and r.value is not None:
                outs.append((r.value, r))
        c = None
        from ..dataflow import Cone
        calls = set()
        for e, st in outs:
            cc = cone(du, e, st, interproc=False)
            calls |= cc.calls
            c = cc
        # update_z writes into its output parameter: include the stored values
        for st, t, v, k in stores(f):
            if isinstance(t, ast.Subscript) and v is not None:
                calls |= cone(du, v, du.stmt_of(st), interproc=False).calls
        for need, why in ((prec, "posterior covariance"), (resid, "residual of the other blocks")):
            ok = any(x.endswith("." + need) for x in calls)
            R.check(ok, "DEP.latent", f.key, f"new factor depends on {need}", why, f"the updated factor does not depend on {need} ({why})")


KERNELS = [
    "_compute_fn_x_ih", "_compute_fn_z_i", "_compute_fn_y_i", "_compute_fn_x", "_compute_id_plus_u_prod_ih", "_compute_id_plus_d_prod_i",
    "_compute_id_plus_vprod_i", "_compute_id_plus_us_prod_inv", "_compute_latent_x_per_class", "_latent_y_per_class", "compute_latent_x",
    "_compute_uprod", "_compute_vprod", "estimate_x", "_get_statistics_by_class_id", "_sum_n_statistics", "_sum_f_statistics",
    "compute_accumulators_U", "compute_accumulators_V", "compute_accumulators_D", "initialize_XYZ",
]
OUTPUT_PARAMS = {"update_z": "latent_z", "update_y": "latent_y"}


def check_kernels_pure(P, R):
    """The kernels are called once per pass on the same accumulated statistics: they must not modify their inputs
    (update_z / update_y fill their own block's output parameter by design)."""
    from ..engines import own as owneng

    own = owneng.Own(P, modules=None)
    for name in KERNELS:
        f = P.func(FA + name)
        s = own.sums[f.key]
        bad = {o: w for o, w in s.mutates.items()}
        R.check(not bad, "PURE.kernel", f.key, "no in-place modification of an argument or of the machine", "pure", "; ".join(f"{owneng.fmt_org(o)}: {w}" for o, w in list(bad.items())[:2]) + " - the statistics/factors handed to the kernel are corrupted for the next pass")
    for name, outp in OUTPUT_PARAMS.items():
        f = P.func(FA + name)
        s = own.sums[f.key]
        bad = {o: w for o, w in s.mutates.items() if not (o[1] == outp)}
        R.check(not bad, "PURE.kernel", f.key, f"only the output parameter {outp} is written", "", "; ".join(f"{owneng.fmt_org(o)}: {w}" for o, w in list(bad.items())[:2]))


def check_precision_deps(P, R):
    """DEP.precision (see the comment in the body)."""
    # DEP.precision: the posterior precision of each latent block is computed from the *current* subspace of that block and the
    # UBM covariances - not from a constant that happens to equal it for the untrained default (D = sqrt(sigma / r))
    from ..dataflow import cone as _cone7
    n_prec = 0
    for fk_, helper_, need_ in (("update_z", "_compute_id_plus_d_prod_i", ("_D", "D")), ("compute_accumulators_D", "_compute_id_plus_d_prod_i", ("_D", "D"))):
        f_ = P.func(FA + fk_, required=False)
        if f_ is None:
            continue
        du_ = get_defuse(f_, P)
        for c_ in [x for x in walk_no_nested(f_.node) if isinstance(x, ast.Call) and isinstance(x.func, ast.Attribute) and x.func.attr == helper_]:
            if not c_.args:
                continue
            n_prec += 1
            from ..dataflow import values_only as _vo7
            with _vo7():
                cn_ = _cone7(du_, c_.args[0], du_.stmt_of(c_), interproc=True)
            has_sub = any(a.split(".")[-1] in need_ for a in cn_.attrs)
            has_var = any(a.split(".")[-1] in ("variance_supervector", "variances", "_variances") for a in cn_.attrs)
            R.check(has_sub and has_var, "DEP.precision", f_.key, f"{helper_}({src(c_.args[0])[:30]}, ...)", "D' Sigma^-1 D from the current D and the UBM covariances", f"the posterior precision of z is computed from `{src(c_.args[0])[:30]}`, which does not derive from {'the current D' if not has_sub else 'the UBM covariances'}: the E-step of z no longer matches the model once D has moved away from its initial value", c_.lineno)
    R.floor("DEP.precision sites", n_prec, 2)


def run(P, R, tier):
    check_kernels_pure(P, R)
    from ..engines import memo, own as owneng
    _own = owneng.Own(P)
    for cn in ("FactorAnalysisBase", "ISVMachine", "JFAMachine"):
        memo.check_class(P, R, _own, cn)
    check_residuals(P, R)
    check_precisions(P, R)
    check_latent_updates(P, R)
    seq.check_enroll_loop(P, R, "factor_analysis:ISVMachine.enroll", blocks=["x", "z"])
    seq.check_enroll_loop(P, R, "factor_analysis:JFAMachine.enroll", blocks=["y", "x", "z"])
    n = seq.check_arg_roles(P, R, [
        FA + "update_z", FA + "update_y", FA + "_latent_y_per_class", FA + "compute_latent_x", FA + "_compute_latent_x_per_class",
        "factor_analysis:ISVMachine.enroll", "factor_analysis:JFAMachine.enroll",
    ])
    R.floor("ARGROLE", n, 25)
    from ..engines import idx as _idx
    _idx.check_class_select(P, R, "factor_analysis:FactorAnalysisBase._get_statistics_by_class_id")
    from ..engines import dtype as _dt
    n_dt = 0
    for name in ("_compute_fn_x_ih", "_compute_fn_y_i", "_compute_fn_z_i", "_compute_latent_x_per_class", "_latent_y_per_class", "_latent_z_per_class", "compute_latent_x", "update_y", "update_z", "_compute_id_plus_u_prod_ih", "_compute_id_plus_vprod_i", "_compute_id_plus_d_prod_i"):
        k_ = "factor_analysis:FactorAnalysisBase." + name
        if P.func(k_, required=False) is not None:
            n_dt += _dt.check_function(P, R, k_, raw_attrs=("n", "sum_px", "sum_pxx"))
    R.floor("DTYPE.raw sites (enrolment kernels)", n_dt, 5)
    from ..engines import opt as _opt
    n_opt = 0
    for name in ['_compute_fn_x_ih', '_compute_fn_y_i', '_compute_fn_z_i', '_compute_latent_x_per_class', '_latent_y_per_class', '_latent_z_per_class', 'compute_latent_x', 'update_y', 'update_z', 'update_x', 'compute_accumulators_U', 'compute_accumulators_V', 'compute_accumulators_D', '_compute_fn_x', 'estimate_x']:
        k_ = "factor_analysis:FactorAnalysisBase." + name
        if P.func(k_, required=False) is not None:
            n_opt += _opt.check_function(P, R, k_)
    R.floor("OPT optional-factor selections", n_opt, 6)
    from ..engines import traps as _traps
    _traps.check(P, R, ['factor_analysis'], scope='factor_analysis:(FactorAnalysisBase\\.(_compute_\\w+|_latent_\\w+|compute_latent_x|update_[xyz]|_get_statistics_by_class_id|_sum_[nf]_statistics|initialize_XYZ)|ISVMachine\\.enroll|JFAMachine\\.enroll)')
    from ..engines import proto as _pacc
    n_acc_ = 0
    for nm_ in ("_sum_n_statistics", "_sum_f_statistics"):
        _pacc.check_label_compares(P, R, "factor_analysis:FactorAnalysisBase." + nm_)
    for nm_ in ("_sum_n_statistics", "_sum_f_statistics"):
        n_acc_ += _pacc.check_accumulation_signs(P, R, "factor_analysis:FactorAnalysisBase." + nm_)
    R.floor("ACC.sum in-place accumulations", n_acc_, 2)
    from ..engines import proto as _prd
    for nm_ in ['_compute_latent_x_per_class', '_compute_fn_x_ih', '_compute_fn_z_i', '_compute_fn_y_i', '_compute_fn_x', 'compute_latent_x', 'update_z', 'update_y', 'estimate_x', 'estimate_ux']:
        if P.func('factor_analysis:FactorAnalysisBase.' + nm_, required=False) is not None:
            _prd.check_return_deps(P, R, 'factor_analysis:FactorAnalysisBase.' + nm_)
    from ..engines import opt as _optf
    _optf.check_forwarded_defaults(P, R, ['factor_analysis'])
    from ..engines import proto as _pst9
    for f9_ in P.all_funcs(['factor_analysis']):
        _pst9.check_standins(P, R, f9_.key)

    check_precision_deps(P, R)


EXPLANATION += ' Also: (POL.residual-placement / PREC.placement) every factor of the residuals multiplies and the UBM variances divide; (OPT) optional factors are used only where present and an absent factor contributes 0 / None; (IDX.class-select) the per-class selection compares labels with ==; (DTYPE.raw) no float is stored into a buffer with the dtype of user statistics.'
EXPLANATION += ' (ACC.sum) the per-class statistic sums add (+=, add.at, or a full-slice store of a non-negative grouped sum); (IDX.class-eq) one-hot memberships compare by equality; (DIM) per-class session factors have layout (r_U, sessions).'
