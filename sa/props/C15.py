"""C15 — training is equivariant, scoring invariant, under affine feature rescaling/shift."""
from __future__ import annotations

from ..engines import dimrun

EXPLANATION = (
    "Decides dimensional homogeneity of every formula of the package against the transformation law C15 states for each "
    "observable under x -> a*x with one scale a for all features (means U, variances U^2, weights 1, log-likelihoods LOG[U^-d], "
    "statistics U^k, scores / latent factors / i-vectors 1, centroids U, distances U^2, WCCN/whitening projections U^-1): a units-of-"
    "measure type inference (engine DIM: exponents linear in the symbolic feature count d, log-domain values, axis kinds) over "
    "gmm.py, kmeans.py, linear_scoring.py, factor_analysis.py, ivector.py, wccn.py, whitening.py, from 40 entry points, in the "
    "NumPy and the Dask arm. Obligations: (D1) operands of + - compare where/maximum/clip have the same dimension; (D2) every "
    "store to a declared attribute and every declared return has the declared dimension; (D3) exp/log/power arguments are legal; "
    "log-domain values are only combined with log-domain values or pure numbers. A dimensionally inhomogeneous formula cannot be "
    "equivariant; a homogeneous one of the declared degree is, for uniform a. Shifts b, distinct per-feature scales and rotations "
    "are NOT decided (they need algebraic cancellation / axis-sensitive contraction arguments)."
)
ASSUMPTIONS = [
    "declared types in sa/tables/dim_types.py are the transformation laws stated by C15/C01/C02/C20",
    "library model of ~60 NumPy/SciPy/Dask callables in sa/engines/dim_lib.py",
    "literals, module constants, zeros/ones/eye, RNG draws and configuration scalars (floors, relevance factor, alpha) are dimension-polymorphic: 'initial/prior parameters are transformed accordingly'",
]

ALL = [r for r in dimrun.ROOTS if r not in ("gmm.lwl1", "ls.model2d")]  # shape probes of other properties (single vector / single model), not rescaling laws
RULES = ["DIM.D1", "DIM.D2", "DIM.D3", "DIM.LOG", "DIM.SHAPE", "DIM.ABS", "DIM.TRANSL"]


def run(P, R, tier):
    n, rets = dimrun.route(P, R, ALL, rules=RULES)
    R.floor("DIM obligations", n, 150)
    from ..engines import traps as _traps
    _traps.check(P, R, ['gmm', 'kmeans'], scope='(gmm:(?!GMMStats\\.(load|save|from_hdf5|__eq__|is_similar_to)|GMMMachine\\.(load|save|from_hdf5|__eq__|is_similar_to))|kmeans:|wccn:|whitening:|ivector:(e_step|m_step|compute_|IVectorMachine\\.(fit|project))|linear_scoring:)')


EXPLANATION += ' Also: (DIM.ABS) no dimensioned quantity is compared with an absolute literal or tested with an absolute tolerance (np.isclose / allclose defaults).'
EXPLANATION += " (DIM.TRANSL) for the distance functions only, a common shift of samples and centroids is also decided: the returned squared distances are built from differences of operands that move together (centred data against uncentred centroids, or norms expanded into terms that each grow with the offset, are reported); shifts in parameter updates that cancel by design of the sufficient statistics remain undecided."
