"""C11 — ISV/JFA scores are channel-compensated linear scores, same via every entry point."""
from __future__ import annotations

import ast

from ..dataflow import cone, get_defuse, stores
from ..engines import kind, pol
from ..frontend import const_value, src, walk_no_nested

EXPLANATION = (
    "Decides, for every input at once: (KIND) at the five array-level wrapper call sites the container kind of each argument "
    "(one statistics object vs a list of them, from constructors / list displays / resolved return kinds) agrees with what the "
    "statistics-level callee requires (inferred from use and propagated through calls) - a definite mismatch is a TypeError on every "
    "call; (WRAP) each array-level entry point returns its statistics-level sibling applied to self.ubm.acc_stats/transform of "
    "its array arguments and nothing else; (POL) in both score methods the client mean is m + D z (+ V y) with every term "
    "positive; (DEP) the channel offset passed to linear_scoring is U @ estimate_x of the *same* probe whose pooled statistics are "
    "scored, against self.ubm, with frame_length_normalization=True; (COVER) a probe given as several statistics is pooled over all "
    "of them with non-mutating addition; estimate_x uses the pooled counts and first-order statistics of all sessions. "
    "Numerical agreement between entry points is not decided."
)
ASSUMPTIONS = ["GMMMachine.acc_stats returns one GMMStats, GMMMachine.transform a list (resolved from the source)", "sum(L[1:], start=L[0]) adds every element of L once with __add__"]

FA = "factor_analysis:"


def check_score(P, R, key, client_terms):
    f = P.func(key)
    R.analysed(f)
    du = get_defuse(f, P)
    vp = f.value_params
    model_p, data_p = vp[0], vp[1]
    ls_calls = [c for c in walk_no_nested(f.node) if isinstance(c, ast.Call) and src(c.func).split(".")[-1] == "linear_scoring"]
    if not ls_calls:
        R.violation("WRAP.score", key, "linear_scoring(...)", "the score is no longer computed by linear_scoring")
        return
    p = pol.Pol(P, f)
    for c in ls_calls:
        st = du.stmt_of(c)
        tg = next((t[1] for t in P.resolve_callee(c.func, f) if t[0] == "repo"), None)
        if tg is None:
            R.undecided("WRAP.score", key, src(c.func), "linear_scoring not resolved")
            continue
        b = P.bind_args(tg, c.args, c.keywords)
        mp, up, sp, op, fp = tg.params[:5]
        # client mean
        t = list(dict.fromkeys(p.terms(b.get(mp), st)))
        for atoms in client_terms:
            pol.check_row(R, "POL.client", key, t, dict(atoms=atoms, sign="+", why="client mean = m + D z (+ V y)"))
        # D z must be a product of D and z, not a sum
        dz = [a for s, a in t if any(pol._match(x, ["_D"]) for x in a)]
        R.check(bool(dz) and all(any(model_p in x or "latent_z" in x for x in a) for a in dz), "POL.client", key, "D multiplies the client's z", "", "D is not multiplied by the client's latent offset")
        # every factor of the client mean multiplies (m + D * z + V @ y)
        pi_ = pol.Pol(P, f, track_inv=True)
        ti_ = list(dict.fromkeys(pi_.terms(b.get(mp), st)))
        inv_atoms = sorted({x for s_, a in ti_ for x in a if x.startswith("1/")})
        R.check(not inv_atoms, "POL.client-placement", key, "client mean m + D z (+ V y): every factor multiplies", "", f"{inv_atoms[:3]} divide(s) in the client mean", c.lineno)
        # ubm
        uc = cone(du, b[up], st, interproc=False) if b.get(up) is not None else None
        R.check(uc is not None and uc.has_attr("ubm") and uc.params <= {f.self_name}, "DEP.score-ubm", key, f"ubm={src(b.get(up)) if b.get(up) is not None else None}", "scored against the machine's UBM", "the probe is not scored against self.ubm", c.lineno)
        # offset = U @ estimate_x(data)
        oc = cone(du, b.get(op), st, interproc=False) if b.get(op) is not None else None
        ok_off = oc is not None and oc.has_attr("_U", "U")
        est = [n for n in (oc.nodes if oc else []) if isinstance(n, ast.Call) and isinstance(n.func, ast.Attribute) and n.func.attr in ("estimate_x", "estimate_ux")]
        R.check(ok_off and bool(est), "DEP.offset", key, f"offset={src(b.get(op))[:40] if b.get(op) is not None else None}", "U @ posterior-mean channel factor", "the channel offset passed to linear_scoring is not U x with x estimated from the probe (no channel compensation)", c.lineno)
        for e in est:
            same = e.args and isinstance(e.args[0], ast.Name) and e.args[0].id == data_p and all(d.how == "param" for d in du.reaching(du.stmt_of(e), data_p))
            R.check(same, "DEP.offset-probe", key, src(e), "x estimated from the probe being scored", f"the channel factor is estimated from `{src(e.args[0]) if e.args else ''}`, not from the whole probe `{data_p}` that is scored", e.lineno)
        # offset sign: U and x enter positively
        if b.get(op) is not None:
            to = list(dict.fromkeys(p.terms(b[op], st)))
            neg = [x for x in to if x[0] == -1]
            R.check(not neg, "POL.offset", key, "offset U x positive", "", f"the channel offset enters negated: {pol.fmt_terms(neg)}", c.lineno)
        # probe statistics
        sc = cone(du, b.get(sp), st, interproc=False) if b.get(sp) is not None else None
        R.check(sc is not None and data_p in sc.params, "DEP.score-probe", key, f"test_stats={src(b.get(sp)) if b.get(sp) is not None else None}", "the probe's statistics", "the scored statistics do not come from the probe", c.lineno)
        # frame normalisation on
        fl = b.get(fp)
        R.check(fl is not None and const_value(fl) is True, "TABLE.frame-norm", key, f"frame_length_normalization={src(fl) if fl is not None else '<default False>'}", "frame-normalised", "the ISV/JFA score is not frame-length normalised", c.lineno)
    # pooling: sum over all elements with __add__
    pools = []
    scopes = [f]
    work = [(f, data_p, 0)]
    seen_ = {(f.key, data_p)}
    while work:
        g_, prm_, d_ = work.pop()
        for n in walk_no_nested(g_.node):
            # the pooling may live in a helper that receives the probe (or, inside a helper, one template of it)
            if isinstance(n, ast.Call) and d_ < 3:
                b_ = None
                for t_ in P.resolve_callee(n.func, g_):
                    if t_[0] != "repo" or t_[1].qualname.endswith(("estimate_x", "estimate_ux")):
                        continue
                    b_ = P.bind_args(t_[1], n.args, n.keywords)
                    for p2_, a2_ in b_.items():
                        names_ = {x.id for x in ast.walk(a2_) if isinstance(x, ast.Name)}
                        loopvars_ = {x.target.id for x in ast.walk(g_.node) if isinstance(x, (ast.For, ast.comprehension)) and isinstance(x.target, ast.Name) and isinstance(x.iter, ast.Name) and x.iter.id == prm_}
                        if (prm_ in names_ or names_ & loopvars_) and (t_[1].key, p2_) not in seen_:
                            seen_.add((t_[1].key, p2_))
                            if t_[1] not in scopes:
                                scopes.append(t_[1])
                            work.append((t_[1], p2_, d_ + 1))
    for sc_ in scopes:
        for n in walk_no_nested(sc_.node):
            if isinstance(n, ast.Call) and isinstance(n.func, ast.Name) and n.func.id == "sum":
                pools.append(n)
            if isinstance(n, ast.Call) and src(n.func).endswith("reduce"):
                pools.append(n)
    if not pools:
        R.violation("COVER.pool", key, "pooling of a multi-statistics probe", "several statistics of one probe are no longer pooled")
    # the pooling applies to every probe of more than one statistics object: a length test that guards it is `> 1` (`>= 2`, `!= 1`)
    from ..cfg import guards_of as _gof11
    helper_calls = [c_ for sc_ in scopes for c_ in walk_no_nested(sc_.node) if isinstance(c_, ast.Call) and c_.args and any(t_[0] == "repo" and t_[1] in scopes[1:] for t_ in P.resolve_callee(c_.func, sc_))]
    for n in pools + helper_calls:
        for t_, pol_ in _gof11(n._stmt if hasattr(n, "_stmt") else get_defuse(next(sc_ for sc_ in scopes if any(n is x for x in ast.walk(sc_.node))), P).stmt_of(n)):
            seq_ = n.args[0] if n.args else None
            if src(n.func).endswith("reduce") and len(n.args) >= 2 and n in pools:
                seq_ = n.args[1]
            base_ = seq_
            while isinstance(base_, ast.Subscript):
                base_ = base_.value
            conj_ = t_.values if isinstance(t_, ast.BoolOp) and isinstance(t_.op, ast.And) else [t_]
            if not pol_ and len(conj_) > 1:
                continue  # the negation of a conjunction says nothing about one conjunct
            for cmp_ in [x for x in conj_ if isinstance(x, ast.Compare) and len(x.ops) == 1 and isinstance(x.left, ast.Call) and isinstance(x.left.func, ast.Name) and x.left.func.id == "len" and isinstance(x.comparators[0], ast.Constant) and x.left.args and base_ is not None and src(x.left.args[0]) == src(base_)]:
                k_, op_ = x.comparators[0].value if False else cmp_.comparators[0].value, cmp_.ops[0]
                more_than_one = (isinstance(op_, ast.Gt) and k_ == 1) or (isinstance(op_, ast.GtE) and k_ == 2) or (isinstance(op_, ast.NotEq) and k_ == 1)
                one = (isinstance(op_, ast.Eq) and k_ == 1) or (isinstance(op_, ast.LtE) and k_ == 1) or (isinstance(op_, ast.Lt) and k_ == 2)
                okg = (more_than_one and pol_) or (one and not pol_)
                R.check(okg, "COVER.pool-guard", key, f"pooling under `{src(cmp_)}`", "pooled whenever there is more than one statistics object", f"the pooling is guarded by `{src(cmp_)}`{'' if pol_ else ' (else arm)'}: a probe of some length greater than one is not pooled, and only its first statistics object is scored", cmp_.lineno)
    for n in pools:
        if isinstance(n.func, ast.Name) and n.func.id == "sum":
            seq = n.args[0] if n.args else None
            start = next((k.value for k in n.keywords if k.arg == "start"), n.args[1] if len(n.args) > 1 else None)
            ok = False
            if isinstance(seq, ast.Subscript) and isinstance(seq.slice, ast.Slice) and start is not None:
                lo = const_value(seq.slice.lower) if seq.slice.lower is not None else 0
                base = src(seq.value)
                ok = lo == 1 and seq.slice.upper is None and seq.slice.step is None and src(start) == f"{base}[0]"
            R.check(ok, "COVER.pool", key, src(n), "every element added once", "the pooled statistics do not cover every element of the probe exactly once", n.lineno)
        else:
            opn = src(n.args[0]) if n.args else ""
            if "iadd" in opn:
                R.violation("OWN.pool", key, src(n)[:60], "in-place pooling mutates the caller's first statistics object", n.lineno)
            else:
                whole_ = len(n.args) >= 2 and isinstance(n.args[1], ast.Name)
                if len(n.args) == 3 and isinstance(n.args[1], ast.Subscript) and isinstance(n.args[1].slice, ast.Slice):
                    sl_ = n.args[1].slice
                    whole_ = const_value(sl_.lower) == 1 and sl_.upper is None and sl_.step is None and src(n.args[2]) == f"{src(n.args[1].value)}[0]"
                R.check("add" in opn and whole_, "COVER.pool", key, src(n)[:60], "reduce(add) over the whole list", "reduction does not cover the whole list", n.lineno)
    # result is element [0][0] of the (1 model x 1 probe) score matrix  -- a scalar either way; not constrained


def check_estimate_x(P, R):
    key = FA + "FactorAnalysisBase.estimate_x"
    f = P.func(key)
    R.analysed(f)
    du = get_defuse(f, P)
    for r in [x for x in walk_no_nested(f.node) if isinstance(x, ast.Return) and x.value is not None]:
        c = cone(du, r.value, r, interproc=False)
        for need, why in (("_compute_id_plus_us_prod_inv", "posterior covariance from the pooled counts"), ("_compute_fn_x", "pooled residual F - N m")):
            R.check(any(x.endswith("." + need) for x in c.calls), "DEP.estimate_x", key, f"x depends on {need}", why, f"the channel factor does not depend on {need} ({why})")
        R.check(c.has_attr("_U") and c.has_attr("variance_supervector", "variances"), "DEP.estimate_x", key, "x depends on U' Sigma^-1", "", "the channel factor is not projected with U' Sigma^-1")
    # both helpers pool over *all* sessions
    for name, fields in (("_compute_fn_x", ("n", "sum_px")), ("_compute_id_plus_us_prod_inv", ("n",))):
        g = P.func(FA + "FactorAnalysisBase." + name)
        R.analysed(g)
        x = g.value_params[0]
        for fld in fields:
            found = False
            for n in walk_no_nested(g.node):
                if isinstance(n, ast.Call) and isinstance(n.func, ast.Name) and n.func.id == "sum" and n.args and isinstance(n.args[0], ast.GeneratorExp):
                    ge = n.args[0]
                    if len(ge.generators) == 1 and isinstance(ge.generators[0].iter, ast.Name) and ge.generators[0].iter.id == x and isinstance(ge.elt, ast.Attribute) and ge.elt.attr == fld and not ge.generators[0].ifs:
                        found = True
                if isinstance(n, (ast.For,)) and isinstance(n.iter, ast.Name) and n.iter.id == x and isinstance(n.target, ast.Name):
                    for st, t, v, k in stores(n):
                        if k == "aug" and isinstance(st.op, ast.Add) and isinstance(v, ast.Attribute) and v.attr == fld:
                            found = True
                        # acc = acc + s.fld  (out-of-place accumulation)
                        if k == "assign" and isinstance(t, ast.Name) and isinstance(v, ast.BinOp) and isinstance(v.op, ast.Add):
                            sides = [v.left, v.right]
                            if any(isinstance(s_, ast.Name) and s_.id == t.id for s_ in sides) and any(isinstance(s_, ast.Attribute) and s_.attr == fld and isinstance(s_.value, ast.Name) and s_.value.id == n.target.id for s_ in sides):
                                found = True
            # the pooled counts may also be handed in by the caller (optional parameter), computed there over the whole probe
            if not found and fld == "n":
                from .C07 import _param_arg_atoms
                for pn in g.value_params[1:]:
                    got = _param_arg_atoms(P, g, pn)
                    if got and any(a.endswith("[*].n") for a in got):
                        found = True
            R.check(found, "COVER.pool-x", g.key, f"sum of .{fld} over all of {x}", "pooled over every session", f".{fld} is not summed over every statistics object of the probe")


def run(P, R, tier):
    from . import C08

    C08.run(P, R, tier)  # the scoring kernel itself (offset sign and count weighting, guards) is part of C11's statement
    from ..engines import memo, own as owneng
    _own = owneng.Own(P)
    for cn in ("FactorAnalysisBase", "ISVMachine", "JFAMachine"):
        memo.check_class(P, R, _own, cn)
    n = 0
    n += kind.check_call_kinds(P, R, FA + "FactorAnalysisBase.score_using_array", "score")
    n += kind.check_call_kinds(P, R, FA + "FactorAnalysisBase.enroll_using_array", "enroll")
    n += kind.check_call_kinds(P, R, FA + "ISVMachine.enroll_using_array", "enroll")
    n += kind.check_call_kinds(P, R, FA + "ISVMachine.transform", "estimate_ux")
    n += kind.check_call_kinds(P, R, FA + "FactorAnalysisBase.fit_using_array", "fit")
    R.floor("KIND call sites", n, 4)
    kind.check_thin_wrapper(P, R, FA + "FactorAnalysisBase.score_using_array", "score", ["data"])
    kind.check_thin_wrapper(P, R, FA + "FactorAnalysisBase.enroll_using_array", "enroll", ["X"])
    kind.check_thin_wrapper(P, R, FA + "ISVMachine.enroll_using_array", "enroll", ["X"])
    kind.check_thin_wrapper(P, R, FA + "ISVMachine.transform", "estimate_ux", ["X"])
    kind.check_thin_wrapper(P, R, FA + "FactorAnalysisBase.fit_using_array", "fit", ["X"])
    check_score(P, R, FA + "ISVMachine.score", [["mean_supervector", "ubm.means"], ["_D"]])
    check_score(P, R, FA + "JFAMachine.score", [["mean_supervector", "ubm.means"], ["_D"], ["_V"]])
    check_estimate_x(P, R)
    from . import C07 as _c07
    _c07.check_precisions(P, R, only=["_compute_id_plus_us_prod_inv"])  # the posterior covariance of the probe's channel factor
    from ..engines import dimrun as _dr
    _dr.route(P, R, ["fa.fn_x"], rules=["DIM.", "EXT."], where_prefix=["factor_analysis:"])
    # estimate_ux = U @ estimate_x
    f = P.func(FA + "FactorAnalysisBase.estimate_ux")
    du = get_defuse(f, P)
    for r in [x for x in walk_no_nested(f.node) if isinstance(x, ast.Return) and x.value is not None]:
        c = cone(du, r.value, r, interproc=False)
        R.check(c.has_attr("U", "_U") and any(x.endswith(".estimate_x") for x in c.calls), "DEP.estimate_ux", f.key, f"return {src(r.value)}", "U @ x", "the channel offset is not U times the estimated channel factor")
    from ..engines import opt as _opt
    n_opt = 0
    for name in ['_compute_fn_x_ih', '_compute_fn_y_i', '_compute_fn_z_i', '_compute_latent_x_per_class', '_latent_y_per_class', '_latent_z_per_class', 'compute_latent_x', 'update_y', 'update_z', 'update_x', 'compute_accumulators_U', 'compute_accumulators_V', 'compute_accumulators_D', '_compute_fn_x', 'estimate_x']:
        k_ = "factor_analysis:FactorAnalysisBase." + name
        if P.func(k_, required=False) is not None:
            n_opt += _opt.check_function(P, R, k_)
    R.floor("OPT optional-factor selections", n_opt, 6)
    from ..engines import traps as _traps
    _traps.check(P, R, ['factor_analysis', 'linear_scoring'], scope='(factor_analysis:(FactorAnalysisBase\\.(estimate_x|estimate_ux|_compute_fn_x|_compute_id_plus_us_prod_inv|_compute_uprod|mean_supervector|variance_supervector|score_using_array|enroll_using_array|_\\w*pool\\w*|_\\w*probe\\w*)|ISVMachine\\.(score|transform)|JFAMachine\\.score|_\\w*probe\\w*|_\\w*pool\\w*)|linear_scoring:)')
    from ..engines import opt as _optf
    _optf.check_forwarded_defaults(P, R, ['factor_analysis', 'linear_scoring'])


EXPLANATION += " Also: the posterior precision of the probe's channel factor (identity + count-weighted U' Sigma^-1 U, counts multiplying, variances dividing), (OPT) optional factors, pooling of multi-statistics probes also inside helpers."
EXPLANATION += ' (POL.client-placement) every factor of the client mean m + D z (+ V y) multiplies.'
