"""C16 — a trained model is a function of the labelled sample multiset and the seed only."""
from __future__ import annotations

import ast

from ..engines import idx, rng
from ..frontend import src, walk_no_nested

EXPLANATION = (
    "Decides the structural conditions of reproducibility for k-means, GMM, ISV, JFA and WCCN, for every history and "
    "global-RNG state at once: (RNG) every random draw's generator is determined by the configuration - a draw from the "
    "process-global generator is dominated, on every path with an integer random_state, by np.random.seed(<random_state>); "
    "no initialiser taking random_state ends up with None (through an explicit None, or through an omitted argument whose "
    "callee default is None - dask-ml's k_init); no unseeded generator objects, no time/urandom sources. (IDX.I2) loops over a "
    "*set* of class ids only accumulate commutatively, store under the class id or bind temporaries that do not survive "
    "the loop - nothing positional is built in hash order; (IDX.consistent) per-class containers are addressed by the "
    "loop's class id everywhere; (IDX.I1) sequences built in label-iteration order are not indexed by label values (WCCN). "
    "Invariance under permuting samples depends on dask-ml's initialiser picking rows by index and is not decided."
)
ASSUMPTIONS = [
    "numpy.random.seed(int) fully determines subsequent global draws; dask_ml k_init(random_state=None) is unseeded (library signature)",
    "class ids are 0..K-1 in factor_analysis.py (C16's quantifier)",
]

SCOPE = ["kmeans", "gmm", "factor_analysis", "wccn", "utils"]
SET_LOOP_FUNCS = [
    "factor_analysis:FactorAnalysisBase.compute_accumulators_U",
    "factor_analysis:FactorAnalysisBase.update_z",
    "factor_analysis:FactorAnalysisBase.compute_accumulators_D",
    "factor_analysis:FactorAnalysisBase.compute_accumulators_V",
    "wccn:WCCN.fit",
]


def run(P, R, tier):
    n = rng.scan(P, R, SCOPE)
    R.floor("RNG sites", n, 5)
    # note the out-of-scope site
    n_iv = 0
    for f in P.all_funcs(["ivector"]):
        for c in walk_no_nested(f.node):
            if isinstance(c, ast.Call) and (P.dotted(c.func, f) or "").startswith("numpy.random."):
                n_iv += 1
                R.note(f"{f.key}: `{src(c)[:40]}` draws from the global generator (i-vector is outside C16's scope)")
    nloops = 0
    # every function of the scope that loops over a set of labels
    for f in P.all_funcs(["factor_analysis", "wccn"]):
        colls, loops = idx.label_loops(P, f)
        if not any(not lp.is_comp for lp in loops):
            continue
        nloops += len([lp for lp in loops if not lp.is_comp])
        idx.check_set_loop_order(P, R, f)
        idx.check_label_uses(P, R, f)
        idx.check_label_consistency(P, R, f)
        idx.check_label_indexing(P, R, f, contract_0_k=(f.module.name == "factor_analysis"))
    R.floor("IDX label loops", nloops, 5)
    from ..engines import proto as _proto
    R.floor("PARTITION.by-class definitions", _proto.check_class_split(P, R), 2)
    for k in SET_LOOP_FUNCS:
        P.func(k)  # anchors
    from ..engines import hist as _hist
    _hist.check(P, R)
    from ..engines import traps as _traps
    _traps.check(P, R, ['factor_analysis', 'kmeans', 'wccn'], scope='(factor_analysis:(FactorAnalysisBase\\.(compute_latent_x|update_[yz]|compute_accumulators_[UVD]|_get_statistics_by_class_id|fit_using_array|initialize|create_UVD|_sum_[nf]_statistics)|check_dask_input_samples_per_class)|kmeans:KMeansMachine\\.(initialize|fit)|wccn:WCCN\\.fit)')
    # a bag of statistics is regrouped per class by the label of each statistic, whatever the partitioning (C12's routing rules)
    from .C12 import check_prepare as _cp16
    _cp16(P, R)


EXPLANATION += ' Also: (HIST) no module-level, class-level or default-argument container is mutated by any function of the package: nothing outlives a call that a later training could read.'
EXPLANATION += ' (HIST.H1) a memoised function is exempt only when it is value-keyed by construction (pure function of scalars returning a scalar); (TRAP.by-position) runs of an order that sorts the labels are classes, runs of the given order are not.'
