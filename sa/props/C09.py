"""C09 — each JFA training phase is exact EM: its marginal likelihood never decreases."""
from __future__ import annotations

import ast

from ..dataflow import cone, get_defuse, stores
from ..engines import dimrun, own as owneng, pol, proto
from ..frontend import const_value, src, walk_no_nested
from .C07 import check_kernels_pure, check_precisions, check_residuals

EXPLANATION = (
    "Decides for every training set and configuration at once the structural conditions of the three-phase JFA training: (SEQ) "
    "JFAMachine.fit runs the V loop, then finalize_v, then the U loop (whose E-step receives exactly the speaker factors finalize_v "
    "returned), then finalize_u (same speaker factors), then the D loop (whose E-step receives the channel factors of finalize_u and "
    "those speaker factors) - in the in-memory and in the Dask arm; each loop runs em_iterations passes of one E-step and one M-step; "
    "(SHAPE) the M-steps store V and U reshaped to (components*features, rank) from per-component (features x rank) blocks and D as the "
    "element-wise quotient of two supervector-sized accumulators; (DEP/POL) each A1 accumulator adds the posterior covariance and the "
    "outer product of the posterior mean (both +) weighted by the counts, each A2 accumulator multiplies the phase's residual kernel "
    "with the posterior mean; the M-step solves A2 A1^-1 (quotient for D); (POL/PREC) the residual kernels and posterior precisions of "
    "C07 (shared code); (DIM) all FA formulas are dimensionally homogeneous (U, V, D: U; latent factors and precisions: pure numbers); "
    "(COPYBACK/BRANCH/PURE) as in C04/C12 for the three sinks. That each phase's marginal likelihood does not decrease, and finiteness, are "
    "numerical and not decided."
)
ASSUMPTIONS = ["np.linalg.inv on a stack of matrices inverts each; reshape is row-major", "C07's table of residual signs"]

J = "factor_analysis:JFAMachine."
FA = "factor_analysis:FactorAnalysisBase."


def _loop_of(f, mstep):
    for n in walk_no_nested(f.node):
        if isinstance(n, ast.For) and any(isinstance(c, ast.Call) and mstep in src(c) for c in walk_no_nested(n)):
            return n
    return None


def check_phases(P, R):
    key = J + "fit"
    f = P.func(key)
    R.analysed(f)
    du = get_defuse(f, P)
    cfg = du.cfg
    lv, lu, ld = (_loop_of(f, "m_step_v"), _loop_of(f, "m_step_u"), _loop_of(f, "m_step_d"))
    if None in (lv, lu, ld):
        R.violation("SEQ.phases", key, "three training loops (V, U, D)", "one of the three phase loops is missing")
        return
    for lp, nm in ((lv, "V"), (lu, "U"), (ld, "D")):
        c = cone(du, lp.iter, lp, interproc=False)
        ok = isinstance(lp.iter, ast.Call) and src(lp.iter.func) == "range" and len(lp.iter.args) == 1 and src(lp.iter.args[0]) == f"{f.self_name}.em_iterations"
        R.check(ok, "SEQ.count", key, f"{nm} loop: for ... in {src(lp.iter)}", "em_iterations passes", f"the {nm} phase does not run exactly em_iterations passes", lp.lineno)
    fin_v = fin_u = None
    for st, t, v, k in stores(f):
        if isinstance(t, ast.Name) and isinstance(v, ast.Call) and isinstance(v.func, ast.Attribute):
            if v.func.attr == "finalize_v":
                fin_v = (st, t.id, v)
            if v.func.attr == "finalize_u":
                fin_u = (st, t.id, v)
    if fin_v is None or fin_u is None:
        R.violation("SEQ.phases", key, "finalize_v / finalize_u", "the point estimates of a finished phase are no longer computed and handed over")
        return
    order = [lv, fin_v[0], lu, fin_u[0], ld]
    names = ["V loop", "finalize_v", "U loop", "finalize_u", "D loop"]
    for a, b, na, nb in zip(order, order[1:], names, names[1:]):
        ok = cfg.reach_avoiding(a, b) and not cfg.reach_avoiding(b, a)
        R.check(ok, "SEQ.phases", key, f"{na} before {nb}", "", f"{nb} does not come after {na}: a phase uses point estimates of a subspace that is not trained yet", getattr(b, "lineno", None))

    def handover(loop, estep, param, producer, label):
        n = 0
        for c in walk_no_nested(loop):
            if not isinstance(c, ast.Call):
                continue
            kind, fexpr, args, kws = P.peel_call(c, f)
            if isinstance(fexpr, ast.Attribute) and fexpr.attr == estep:
                tg = P.func(J + estep)
                b = P.bind_args(tg, args, kws)
                a = b.get(param)
                n += 1
                ok = isinstance(a, ast.Name)
                if ok:
                    rd = du.reaching(du.stmt_of(c), a.id)
                    ok = bool(rd) and all(d.stmt is producer[0] for d in rd)
                R.check(ok, "SEQ.handover", key, f"{label}: {estep}({param}={src(a) if a is not None else None})", f"exactly the value {src(producer[2].func)} returned", f"{estep} does not receive the {param} computed by {src(producer[2].func)} (None, zeros or a stale value): the phase conditions on wrong point estimates", c.lineno)
        return n

    n = handover(lu, "e_step_u", "latent_y", fin_v, "U phase")
    n += handover(ld, "e_step_d", "latent_y", fin_v, "D phase")
    n += handover(ld, "e_step_d", "latent_x", fin_u, "D phase")
    R.floor("SEQ.handover call sites", n, 6)
    # finalize_u receives the speaker factors too
    b = P.bind_args(P.func(J + "finalize_u"), fin_u[2].args, fin_u[2].keywords)
    a = b.get("latent_y")
    ok = isinstance(a, ast.Name) and all(d.stmt is fin_v[0] for d in du.reaching(fin_u[0], a.id))
    R.check(ok, "SEQ.handover", key, f"finalize_u(latent_y={src(a) if a is not None else None})", "the speaker factors of the V phase", "finalize_u does not receive the speaker factors computed by finalize_v", fin_u[0].lineno)


def check_mstep_shapes(P, R):
    for key, attr, rank in ((J + "m_step_v", "_V", "r_V"), (FA + "update_U", "_U", "r_U")):
        f = P.func(key)
        R.analysed(f)
        du = get_defuse(f, P)
        me = f.self_name
        if not any(isinstance(t, ast.Attribute) and t.attr == attr for st, t, v, k in stores(f)):
            R.violation("SHAPE.mstep", key, f"self.{attr} = ...", f"the M-step no longer stores the new {attr}: the subspace is never updated")
        for st, t, v, k in stores(f):
            if isinstance(t, ast.Attribute) and t.attr == attr:
                ok = False
                why = "not a reshape"
                if isinstance(v, ast.Call) and isinstance(v.func, ast.Attribute) and v.func.attr == "reshape":
                    dims = v.args[0].elts if len(v.args) == 1 and isinstance(v.args[0], ast.Tuple) else v.args
                    if len(dims) == 2:
                        d0, d1 = src(dims[0]).replace(" ", ""), src(dims[1])
                        flat = d0 in (f"{me}.ubm.n_gaussians*{me}.feature_dimension", f"{me}.feature_dimension*{me}.ubm.n_gaussians", f"{me}.supervector_dimension", "-1")
                        ok = flat and d1 == f"{me}.{rank}"
                        why = f"reshape({src(dims[0])}, {src(dims[1])})"
                R.check(ok, "SHAPE.mstep", key, f"{src(t)} = {src(v)[:60]}", "(components*features, rank)", f"the subspace is stored with shape {why} instead of (components*features, rank)", st.lineno)
                c = cone(du, v, du.stmt_of(st), interproc=False)
                R.check(c.calls_any("inv", "solve") and any(isinstance(n, ast.BinOp) and isinstance(n.op, ast.MatMult) for n in c.nodes) or c.calls_any("solve"), "DEP.mstep", key, f"{attr} = A2 @ inv(A1)", "", f"the new {attr} is not A2 times the inverse of A1", st.lineno)
                # the per-component view before the product
                inner = [n for n in c.nodes if isinstance(n, ast.Call) and isinstance(n.func, ast.Attribute) and n.func.attr == "reshape" and n is not v]
                ok3 = any(len((n.args[0].elts if len(n.args) == 1 and isinstance(n.args[0], ast.Tuple) else n.args)) == 3 and [src(x) for x in (n.args[0].elts if len(n.args) == 1 and isinstance(n.args[0], ast.Tuple) else n.args)] == [f"{me}.ubm.n_gaussians", f"{me}.feature_dimension", f"{me}.{rank}"] for n in inner)
                R.check(ok3, "SHAPE.mstep", key, f"A2 viewed as (components, features, {rank})", "", "A2 is not split per component as (components, features, rank) before it is multiplied with the per-component inverse", st.lineno)
    f = P.func(J + "m_step_d")
    R.analysed(f)
    if not any(isinstance(t, ast.Attribute) and t.attr == "_D" for st, t, v, k in stores(f)):
        R.violation("SHAPE.mstep", f.key, "self._D = A2 / A1", "the D M-step no longer stores the new D")
    for st, t, v, k in stores(f):
        if isinstance(t, ast.Attribute) and t.attr == "_D":
            ok = isinstance(v, ast.BinOp) and isinstance(v.op, ast.Div) and _acc_index(P, f, v.left) == 1 and _acc_index(P, f, v.right) == 0
            R.check(ok, "SHAPE.mstep", f.key, f"{src(t)} = {src(v)}", "element-wise A2 / A1", "D is not the element-wise quotient A2 / A1 of the two supervector-sized accumulators", st.lineno)


def _call_component(P, f, call, index, depth=0):
    """Component (0 = A1, 1 = A2) of the per-class results that result `index` of `call` collects, and whether the
    collection ranges over a whole parameter list.  Follows reduce_iadd(la, lb) with la = [acc[i] for acc in <list>]
    and helpers that return such a call."""
    du = get_defuse(f, P)
    fn = src(call.func).split(".")[-1]
    if fn == "reduce_iadd":
        if index is None or index >= len(call.args):
            return None
        a = call.args[index]
        if isinstance(a, ast.Name):
            for d2 in du.reaching(du.stmt_of(call), a.id):
                if isinstance(d2.value, ast.ListComp) and isinstance(d2.value.elt, ast.Subscript) and len(d2.value.generators) == 1 and not d2.value.generators[0].ifs and isinstance(d2.value.generators[0].iter, ast.Name):
                    return const_value(d2.value.elt.slice)
        if isinstance(a, ast.ListComp) and isinstance(a.elt, ast.Subscript):
            return const_value(a.elt.slice)
        return None
    if depth < 2:
        tg = [t[1] for t in P.resolve_callee(call.func, f) if t[0] == "repo"]
        if tg:
            callee = tg[0]
            for r in [x for x in walk_no_nested(callee.node) if isinstance(x, ast.Return) and x.value is not None]:
                rv = r.value
                if isinstance(rv, ast.Call):
                    return _call_component(P, callee, rv, index, depth + 1)
                if isinstance(rv, ast.Tuple) and index is not None and index < len(rv.elts) and isinstance(rv.elts[index], ast.Name):
                    return _acc_index(P, callee, rv.elts[index], depth + 1)
    return None


def _acc_index(P, f, e, depth=0):
    """Which component (0 = A1, 1 = A2) of the per-class results does this accumulator collect?"""
    du = get_defuse(f, P)
    if not isinstance(e, ast.Name):
        return None
    st = du.stmt_of(e)
    for d in du.reaching(st, e.id):
        if d.how == "unpack" and isinstance(d.value, ast.Call) and d.index is not None:
            r = _call_component(P, f, d.value, d.index, depth)
            if r is not None:
                return r
    return None


ACC = {
    "compute_accumulators_V": ("_compute_id_plus_vprod_i", "_compute_fn_y_i", "latent_y"),
    "compute_accumulators_U": ("_compute_id_plus_u_prod_ih", "_compute_fn_x_ih", "latent_x"),
    "compute_accumulators_D": ("_compute_id_plus_d_prod_i", "_compute_fn_z_i", "latent_z"),
}


def check_accumulators(P, R):
    for name, (prec, resid, lat) in ACC.items():
        f = P.func(FA + name)
        R.analysed(f)
        du = get_defuse(f, P)
        p = pol.Pol(P, f)
        for r in [x for x in walk_no_nested(f.node) if isinstance(x, ast.Return) and isinstance(x.value, ast.Tuple) and len(x.value.elts) == 2]:
            a1, a2 = r.value.elts
            c1 = cone(du, a1, r, interproc=False)
            c2 = cone(du, a2, r, interproc=False)
            R.check(any(x.endswith("." + prec) for x in c1.calls) and lat in c1.params, "DEP.A1", f.key, f"A1 depends on {prec} and {lat}", "posterior covariance + mean outer product", f"A1 does not combine the posterior covariance ({prec}) with the posterior mean {lat}: the M-step is not the EM update", r.lineno)
            R.check(any(x.endswith("." + resid) for x in c2.calls) and lat in c2.params, "DEP.A2", f.key, f"A2 depends on {resid} and {lat}", "residual times posterior mean", f"A2 does not combine the residual kernel {resid} with the posterior mean {lat}", r.lineno)
            t1 = list(dict.fromkeys(p.terms(a1, r)))
            neg = [x for x in t1 if x[0] == -1]
            R.check(bool(t1) and not neg, "POL.A1", f.key, "A1 terms all positive", pol.fmt_terms(t1)[:80], f"a term enters A1 negatively: {pol.fmt_terms(neg)}", r.lineno)
            # posterior moments, residuals and counts multiply in both accumulators
            pi_ = pol.Pol(P, f, track_inv=True)
            for nm_, ae in (("A1", a1), ("A2", a2)):
                it_ = list(dict.fromkeys(pi_.terms(ae, r)))
                inv_atoms = sorted({x for s_, a in it_ for x in a if x.startswith("1/")})
                R.check(not inv_atoms, "POL.acc-placement", f.key, f"{nm_}: every factor multiplies", "", f"{inv_atoms[:3]} divide(s) in the accumulator {nm_}", r.lineno)
            # counts weight A1
            cnt = any(any(a.endswith(".n") or "n_acc" in a for a in x[1]) for x in t1)
            R.check(cnt, "POL.A1", f.key, "A1 weighted by the counts", "", "A1 is not weighted by the zeroth-order statistics", r.lineno)
            # both accumulators are sums over classes / sessions: every in-place update of a returned accumulator adds
            accs = {x.id for x in (a1, a2) if isinstance(x, ast.Name)}
            n_upd = 0
            for st in walk_no_nested(f.node):
                if isinstance(st, ast.AugAssign):
                    b = st.target
                    while isinstance(b, ast.Subscript):
                        b = b.value
                    if isinstance(b, ast.Name) and b.id in accs:
                        n_upd += 1
                        R.check(isinstance(st.op, ast.Add), "ACC.sum", f.key, src(st)[:60], "accumulated with +=", f"the accumulator {b.id} is updated with `{type(st.op).__name__}` instead of being summed over the classes", st.lineno)
            R.check(n_upd >= 2 or not accs, "ACC.sum", f.key, f"{n_upd} in-place accumulations into {sorted(accs)}", "", "the returned accumulators are no longer accumulated over the classes", r.lineno)


PHASE_DEPS = {
    "finalize_v": ("update_y",), "finalize_u": ("compute_latent_x",),
    "e_step_v": ("update_y", "compute_accumulators_V"), "e_step_u": ("compute_latent_x", "compute_accumulators_U"),
    "e_step_d": ("update_z", "compute_accumulators_D"),
}


def check_phase_kernels(P, R):
    """Each E-step / finalize step returns what its latent-factor update and accumulator kernel computed."""
    for name, needs in PHASE_DEPS.items():
        f = P.func(J + name)
        du = get_defuse(f, P)
        for r in [x for x in walk_no_nested(f.node) if isinstance(x, ast.Return) and x.value is not None]:
            c = cone(du, r.value, r, interproc=False)
            for nd in needs:
                R.check(any(x.endswith("." + nd) for x in c.calls), "DEP.phase", f.key, f"result derives from {nd}", "", f"{name} returns a value that does not come from {nd}: the phase works with initial (zero) factors or without its accumulators", r.lineno)
    g = P.func("factor_analysis:ISVMachine.e_step")
    du = get_defuse(g, P)
    for r in [x for x in walk_no_nested(g.node) if isinstance(x, ast.Return) and x.value is not None]:
        c = cone(du, r.value, r, interproc=False)
        for nd in ("compute_latent_x", "update_z", "compute_accumulators_U"):
            R.check(any(x.endswith("." + nd) for x in c.calls), "DEP.phase", g.key, f"result derives from {nd}", "", f"ISV e_step result does not come from {nd}", r.lineno)


def run(P, R, tier):
    check_phase_kernels(P, R)
    check_phases(P, R)
    check_mstep_shapes(P, R)
    check_accumulators(P, R)
    check_residuals(P, R)
    check_precisions(P, R)
    check_kernels_pure(P, R)
    from ..engines import seq
    na = seq.check_arg_roles(P, R, [FA + x for x in ("update_y", "update_z", "_latent_y_per_class", "compute_latent_x", "_compute_latent_x_per_class", "compute_accumulators_V", "compute_accumulators_U", "compute_accumulators_D")] + [J + x for x in ("e_step_v", "e_step_u", "e_step_d", "finalize_v", "finalize_u", "fit")])
    R.floor("ARGROLE (JFA training)", na, 60)
    for k in (FA + "update_y", FA + "compute_latent_x", FA + "initialize"):
        proto.check_branch(P, R, proto.site_func(P, k))
    own = owneng.Own(P)
    key = J + "fit"
    sinks = ("m_step_v", "m_step_u", "m_step_d")
    proto.check_branch(P, R, proto.site_func(P, key))
    n = proto.check_copyback(P, R, own, proto.site_func(P, key), sinks)
    R.floor("COPYBACK sinks (JFA)", n, 3)
    proto.check_tasks_pure(P, R, own, proto.site_func(P, key), sinks)
    n, rets = dimrun.route(P, R, ["fa.jfa.fit", "fa.create_UVD"], rules=["DIM."], where_prefix=["factor_analysis:"])
    R.floor("DIM obligations (JFA training)", n, 25)
    # within a phase pass: one E-step feeding one M-step
    f = P.func(key)
    for ms, es in (("m_step_v", "e_step_v"), ("m_step_u", "e_step_u"), ("m_step_d", "e_step_d")):
        lp = _loop_of(f, ms)
        if lp is None:
            continue
        for arm in [n for n in walk_no_nested(lp) if isinstance(n, ast.If)]:
            for stmts, nm in ((arm.body, "Dask"), (arm.orelse, "in-memory")):
                calls = [src(P.peel_call(c, f)[1]).split(".")[-1] for s in stmts for c in walk_no_nested(s) if isinstance(c, ast.Call)]
                R.check(calls.count(es) == 1 and calls.count(ms) == 1, "SEQ.pass", key, f"{nm} arm of the {ms[-1].upper()} phase: one {es}, one {ms}", "", f"a pass of the {ms[-1].upper()} phase does not consist of exactly one {es} followed by one {ms} ({calls.count(es)} / {calls.count(ms)})", arm.lineno)
    from ..engines import idx as _idx
    _idx.check_class_select(P, R, "factor_analysis:FactorAnalysisBase._get_statistics_by_class_id")
    from ..engines import dtype as _dt
    n_dt = 0
    for name in ("compute_accumulators_U", "compute_accumulators_V", "compute_accumulators_D", "_sum_n_statistics", "_sum_f_statistics", "_compute_fn_x_ih", "_compute_fn_y_i", "_compute_fn_z_i", "_compute_latent_x_per_class", "_latent_y_per_class", "_latent_z_per_class"):
        k_ = "factor_analysis:FactorAnalysisBase." + name
        if P.func(k_, required=False) is not None:
            n_dt += _dt.check_function(P, R, k_, raw_attrs=("n", "sum_px", "sum_pxx"))
    R.floor("DTYPE.raw sites (training kernels)", n_dt, 5)
    from ..engines import proto as _pp
    _pp.check_pairwise_folds(P, R, ['factor_analysis', 'utils'])
    from . import C12 as _c12
    _c12.check_reduce_iadd(P, R)
    from ..engines import opt as _opt
    n_opt = 0
    for name in ['_compute_fn_x_ih', '_compute_fn_y_i', '_compute_fn_z_i', '_compute_latent_x_per_class', '_latent_y_per_class', '_latent_z_per_class', 'compute_latent_x', 'update_y', 'update_z', 'update_x', 'compute_accumulators_U', 'compute_accumulators_V', 'compute_accumulators_D', '_compute_fn_x', 'estimate_x']:
        k_ = "factor_analysis:FactorAnalysisBase." + name
        if P.func(k_, required=False) is not None:
            n_opt += _opt.check_function(P, R, k_)
    R.floor("OPT optional-factor selections", n_opt, 6)
    from ..engines import traps as _traps
    _traps.check(P, R, ['factor_analysis'], scope='factor_analysis:(FactorAnalysisBase\\.(_compute_\\w+|_latent_\\w+|compute_latent_x|update_[xyzUVD]|compute_accumulators_[UVD]|_get_statistics_by_class_id|_sum_[nf]_statistics|initialize\\w*)|JFAMachine\\.(e_step_\\w|m_step_\\w|finalize_\\w|fit)|reduce_iadd)')
    from ..engines import proto as _pacc
    n_acc_ = 0
    for nm_ in ("_sum_n_statistics", "_sum_f_statistics"):
        _pacc.check_label_compares(P, R, "factor_analysis:FactorAnalysisBase." + nm_)
    for nm_ in ("_sum_n_statistics", "_sum_f_statistics", "compute_accumulators_U", "compute_accumulators_V", "compute_accumulators_D"):
        n_acc_ += _pacc.check_accumulation_signs(P, R, "factor_analysis:FactorAnalysisBase." + nm_)
    R.floor("ACC.sum in-place accumulations", n_acc_, 4)
    # mult_along_axis multiplies
    _mf = P.func("factor_analysis:mult_along_axis")
    _mp = pol.Pol(P, _mf, track_inv=True)
    _inv = sorted({x for s_, a in _mp.value_terms() for x in a if x.startswith("1/")})
    R.check(not _inv, "POL.mult-along-axis", _mf.key, "mult_along_axis(A, B, axis) returns A * B broadcast along the axis", "", f"{_inv[:2]} divide(s) in mult_along_axis")
    from ..engines import proto as _prd
    for nm_ in ['_compute_latent_x_per_class', '_compute_fn_x_ih', '_compute_fn_z_i', '_compute_fn_y_i', '_compute_fn_x', 'compute_latent_x', 'update_z', 'update_y', 'estimate_x', 'estimate_ux']:
        if P.func('factor_analysis:FactorAnalysisBase.' + nm_, required=False) is not None:
            _prd.check_return_deps(P, R, 'factor_analysis:FactorAnalysisBase.' + nm_)
    from ..engines import proto as _pst9
    for f9_ in P.all_funcs(['factor_analysis']):
        _pst9.check_standins(P, R, f9_.key)
    from .C07 import check_precision_deps as _cpd9
    _cpd9(P, R)



EXPLANATION += ' Also: (ACC.sum) accumulators are summed over classes / sessions; (POL.acc-placement) every factor of A1 / A2 multiplies; (OPT); (IDX.class-select); (COVER.reduce_iadd / COVER.pairs) per-class accumulators are folded whole; (DTYPE.raw).'
EXPLANATION += ' (ACC.sum / IDX.class-eq as in C07); (POL.mult-along-axis) the helper multiplies; (COVER.tree) reduce_iadd written as a tree covers every element.'


_run_c09_r6 = run


def run(P, R, tier):
    _run_c09_r6(P, R, tier)
    from ..engines import carry as _carry
    for k_ in ("factor_analysis:ISVMachine.fit", "factor_analysis:JFAMachine.fit"):
        _carry.check_stale_derived(P, R, k_)
    _carry.check_blocked_loops(P, R, ["factor_analysis"], scope="factor_analysis:FactorAnalysisBase\\.(compute_accumulators_|update_|_compute_|compute_latent)")


EXPLANATION += " (STALE.derived) a local precomputed from U / V / D inside a training loop is recomputed after every update of them; (BLOCK.carried) per-class results are computed from that class's values."
