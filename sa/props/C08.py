"""C08 — linear scoring is the exact first-order log-likelihood ratio around the UBM."""
from __future__ import annotations

import ast

from ..cfg import ENTRY, guards_of
from ..dataflow import cone, get_defuse, stores
from ..engines import pol
from ..frontend import const_value, src, walk_no_nested

EXPLANATION = (
    "Decides the structural conditions of score = sum_c (model_c - ubm_c)' diag(var_c)^-1 (F_c - N_c(ubm_c + offset_c)) [/ T] "
    "for every input at once: (POL) the model means enter the left factor with +, the UBM means with -, the factor is "
    "divided by the UBM variances; the first-order statistics enter the right factor with +, the UBM means and the channel "
    "offsets with - and weighted by the counts N; (DIM, engine dim) the two factors have dimensions U^-1 and U and the result "
    "is a pure number of shape (models, test items) through transpose(1,2,0)/tensordot(.,.,2); (GUARD) the division by the number "
    "of frames only happens under frame_length_normalization and only as the non-selected arm of np.where(|T| <= eps, 0, .); "
    "(DOM) the MAP -> prior unwrapping dominates every read of the UBM's means and variances; (DEP) the result depends on all "
    "inputs; (NORM) a list of machines is reduced to their means and a bare statistics object is wrapped in a list. "
    "Equality with the directional derivative of the log-likelihood is numerical and not decided."
)
ASSUMPTIONS = ["np.tensordot(a, b, 2) contracts the last two axes of a with the first two of b", "np.where evaluates both arms but selects element-wise"]

KEY = "linear_scoring:linear_scoring"


def _is_predicate(P, g, depth=0):
    """Every value `g` returns is a truth value by construction: a comparison, and / or / not of such, a bool literal,
    isinstance / hasattr / all / any, or another predicate of the package."""
    rets_ = [r for r in walk_no_nested(g.node) if isinstance(r, ast.Return)]
    if not rets_:
        return False

    def tv(e):
        if isinstance(e, ast.Compare):
            return True
        if isinstance(e, ast.BoolOp):
            return all(tv(v) for v in e.values)
        if isinstance(e, ast.UnaryOp) and isinstance(e.op, ast.Not):
            return True
        if isinstance(e, ast.Constant):
            return isinstance(e.value, bool)
        if isinstance(e, ast.Call):
            fn = e.func.attr if isinstance(e.func, ast.Attribute) else getattr(e.func, "id", None)
            if fn in ("isinstance", "hasattr", "all", "any", "callable", "issubclass", "bool", "issubdtype"):
                return True
            if depth < 2:
                for t_ in P.resolve_callee(e.func, g):
                    if t_[0] == "repo" and _is_predicate(P, t_[1], depth + 1):
                        return True
        return False
    return all(r.value is not None and tv(r.value) for r in rets_)


def run(P, R, tier):
    from ..engines import carry as _carry
    _carry.check_blocked_loops(P, R, ["linear_scoring"])
    from ..engines import dimrun
    n, rets = dimrun.route(P, R, ["ls.norm", "ls.raw", "ls.machines"], rules=["DIM.", "EXT."], where_prefix=["linear_scoring:"])
    R.floor("DIM/EXT obligations (linear scoring)", n, 6)
    from ..engines import memo, own as owneng
    memo.check_class(P, R, owneng.Own(P), "GMMMachine")  # the UBM's derived state used by the score must follow its parameters
    f = P.func(KEY)
    R.analysed(f)
    du = get_defuse(f, P)
    vp = f.value_params  # models_means, ubm, test_stats, test_channel_offsets, frame_length_normalization
    if len(vp) < 5:
        R.error("linear_scoring signature changed: fewer than five parameters")
        return
    models, ubm, stats, offs, fln = vp[:5]
    rets = [r for r in walk_no_nested(f.node) if isinstance(r, ast.Return) and r.value is not None]
    # ---- the two factors of the final contraction ---------------------------------------------
    contraction = None
    for r in rets:
        for n in ast.walk(r.value):
            if isinstance(n, ast.Call) and src(n.func).split(".")[-1] in ("tensordot", "einsum", "dot", "matmul") and len(n.args) >= 2:
                contraction = (n, r)
    if contraction is None:
        for r in rets:
            if isinstance(r.value, ast.BinOp) and isinstance(r.value.op, ast.MatMult):
                contraction = (r.value, r)
    if contraction is None:
        R.error("linear_scoring: final contraction (tensordot/einsum/@) not found")
        return
    node, rstmt = contraction
    if isinstance(node, ast.Call):
        ops = [a for a in node.args if not isinstance(a, ast.Constant) and not (isinstance(a, ast.Tuple))][:2]
        if src(node.func).split(".")[-1] == "einsum":
            ops = [a for a in node.args if not (isinstance(a, ast.Constant) and isinstance(a.value, str))][:2]
    else:
        ops = [node.left, node.right]
    p = pol.Pol(P, f, inline_repo=True)
    ta = list(dict.fromkeys(p.terms(ops[0], rstmt)))
    tb = list(dict.fromkeys(p.terms(ops[1], rstmt)))
    # which operand is the model-offset factor?
    if not any(any(pol._match(x, [models, models + "[*].means"]) for x in a) for s, a in ta):
        ta, tb = tb, ta
    rows_a = [
        dict(atoms=[models, f"{models}[*].means"], sign="+", with_=["variances"], why="(model mean - UBM mean) / UBM variance"),
        dict(atoms=[f"{ubm}.means"], sign="-", with_=["variances"], why="(model mean - UBM mean) / UBM variance: zero score for the UBM itself"),
    ]
    rows_b = [
        dict(atoms=["sum_px"], sign="+", why="first-order statistics F"),
        dict(atoms=[f"{ubm}.means"], sign="-", with_=["n"], why="N times the UBM mean is subtracted"),
        dict(atoms=[offs], sign="-", with_=["n"], why="N times the channel offset is subtracted (UBM means shifted by the offset)"),
    ]
    for row in rows_a:
        pol.check_row(R, "POL.score-a", KEY, ta, row)
    for row in rows_b:
        pol.check_row(R, "POL.score-b", KEY, tb, row)
    # the left factor must not contain the statistics and vice versa (bilinear form)
    R.check(not any(any("sum_px" in x for x in a) for s, a in ta), "POL.score-a", KEY, "model factor free of test statistics", "", "test statistics appear in the model factor")
    # ---- the score is bilinear: only linear array operations between the inputs and the result ------------------
    LINEAR_CALLS = {"array", "asarray", "asanyarray", "ascontiguousarray", "transpose", "tensordot", "dot", "einsum", "matmul", "reshape", "swapaxes", "moveaxis", "sum",
                    "stack", "vstack", "hstack", "concatenate", "expand_dims", "squeeze", "atleast_2d", "atleast_3d", "copy", "astype", "abs", "where", "isinstance", "hasattr", "len", "float", "list", "tuple", "logical_not", "moveaxis", "newaxis", "multiply", "subtract", "add", "divide", "true_divide", "ValueError"}
    META_ATTRS = {"shape", "dtype", "ndim", "size", "flags", "itemsize", "nbytes", "strides", "chunks", "numblocks"}
    META_FUNCS = {"type", "isinstance", "hasattr", "callable", "id", "issubclass", "len", "ndim", "shape", "result_type", "broadcast_shapes"}

    def metadata_only(call, g):
        """The call looks only at what kind of array it is given (type, dtype, shape, memory layout), never at its values."""
        fnm = call.func.attr if isinstance(call.func, ast.Attribute) else (call.func.id if isinstance(call.func, ast.Name) else None)
        if fnm in META_FUNCS:
            return True
        gdu = get_defuse(g, P)

        def meta(e, depth=0):
            if isinstance(e, ast.Constant):
                return True
            if isinstance(e, (ast.Tuple, ast.List)):
                return all(meta(x, depth) for x in e.elts)
            if isinstance(e, ast.Attribute):
                x = e
                while isinstance(x, ast.Attribute):
                    if x.attr in META_ATTRS:
                        return True
                    x = x.value
                root = x
                return isinstance(root, ast.Name) and root.id in ("np", "numpy", "da", "dask")
            if isinstance(e, ast.Subscript):
                return meta(e.value, depth)
            if isinstance(e, ast.Name) and depth < 3:
                try:
                    rd = gdu.all_defs(e.id)
                except Exception:
                    rd = []
                if not rd and e.id not in g.params:
                    return True  # a module-level constant (block size)
                return bool(rd) and all(d.how in ("assign", "unpack") and d.value is not None and meta(d.value, depth + 1) for d in rd)
            if isinstance(e, ast.BinOp):
                return meta(e.left, depth) and meta(e.right, depth)
            if isinstance(e, ast.Call):
                return metadata_only(e, g)
            return False
        return all(meta(a) for a in call.args if not isinstance(a, ast.Starred)) and all(meta(k.value) for k in call.keywords) and not any(isinstance(a, ast.Starred) for a in call.args)

    for r in rets:
        rc = cone(du, r.value, r, interproc=False)
        for d in rc.defs:
            if d.how == "substore" and isinstance(d.stmt, ast.Assign):
                R.violation("LINEAR.store", KEY, src(d.stmt)[:70], f"elements of `{d.var}`, which the score is computed from, are overwritten selectively: the score is no longer linear in the model offset and the centred statistics (a dead zone / clamp changes small offsets only)", d.stmt.lineno)
        n_calls = 0
        for x in rc.nodes:
            if isinstance(x, ast.Call):
                fn = x.func.attr if isinstance(x.func, ast.Attribute) else (x.func.id if isinstance(x.func, ast.Name) else None)
                if fn is None:
                    continue
                n_calls += 1
                if fn == "where":
                    cc = cone(du, x.args[0], du.stmt_of(x), interproc=False) if x.args else None
                    okw = cc is not None and any(a.endswith(".t") for a in cc.attrs) and not any(a.endswith((".sum_px", ".n", ".means", ".variances")) for a in cc.attrs)
                    R.check(okw, "LINEAR.ops", KEY, src(x)[:60], "the only selection is the zero-frame guard on T", "np.where selects on something other than the frame count: the score is not linear in its inputs", x.lineno)
                elif fn not in LINEAR_CALLS and any(t_[0] == "repo" for t_ in P.resolve_callee(x.func, f)):
                    # a helper of the package: every call inside it must itself be a linear array operation
                    for t_ in P.resolve_callee(x.func, f):
                        if t_[0] != "repo":
                            continue
                        if _is_predicate(P, t_[1]):
                            continue  # a yes/no question about its arguments (chooses a code path, yields no value of the score)
                        for y in walk_no_nested(t_[1].node):
                            if isinstance(y, ast.Call):
                                fy = y.func.attr if isinstance(y.func, ast.Attribute) else (y.func.id if isinstance(y.func, ast.Name) else None)
                                if fy not in LINEAR_CALLS and metadata_only(y, t_[1]):
                                    continue
                                if fy in ("range", "slice", "enumerate", "debug", "info", "warning"):
                                    continue  # loop / logging scaffolding: no array value flows through
                                R.check(fy in LINEAR_CALLS, "LINEAR.ops", KEY, f"{t_[1].qualname}: {src(y)[:50]}", "linear array operation", f"`{fy}` inside the helper {t_[1].qualname} is applied to a value the score is computed from and is not a linear array operation", y.lineno)
                elif fn not in LINEAR_CALLS:
                    R.violation("LINEAR.ops", KEY, src(x)[:60], f"`{fn}` is applied to a value the score is computed from; the score must be a bilinear form of the model offset and the centred statistics (only reshaping, sums and products are linear)", x.lineno)
        R.ok("LINEAR.ops", KEY, f"{n_calls} calls in the score's cone are linear array operations", "")
    # ---- frame-length normalisation: guarded division by T --------------------------------------
    def resolve(e, st, depth=0):
        """Follow a name to its single defining expression (named intermediate steps are the same computation)."""
        while isinstance(e, ast.Name) and depth < 6:
            rd = du.reaching(st, e.id)
            if len(rd) != 1 or rd[0].how != "assign" or rd[0].value is None:
                break
            e, st, depth = rd[0].value, rd[0].stmt, depth + 1
        return e, st

    def small_arm(cond, st):
        """Which arm (0 = x, 1 = y) of np.where(cond, x, y) is taken for statistics without frames, or None."""
        cond, st = resolve(cond, st)
        flip = False
        while True:
            if isinstance(cond, ast.UnaryOp) and isinstance(cond.op, (ast.Not, ast.Invert)):
                cond, flip = cond.operand, not flip
            elif isinstance(cond, ast.Call) and src(cond.func).split(".")[-1] == "logical_not" and cond.args:
                cond, flip = cond.args[0], not flip
            else:
                break
            cond, st = resolve(cond, st)
        if not (isinstance(cond, ast.Compare) and len(cond.ops) == 1):
            return None
        cc = cone(du, cond, st, interproc=False)
        if not any(a.endswith(".t") for a in cc.attrs):
            return None
        op = cond.ops[0]
        # |T| <= eps  (or eps >= |T|): true for empty statistics
        left_is_t = any(a.endswith(".t") for a in cone(du, cond.left, st, interproc=False).attrs)
        if isinstance(op, (ast.LtE, ast.Lt, ast.Eq)):
            arm = 0 if left_is_t else 1
        elif isinstance(op, (ast.Gt, ast.GtE, ast.NotEq)):
            arm = 1 if left_is_t else 0
        else:
            return None
        if isinstance(op, (ast.Eq, ast.NotEq)):
            arm = 0 if isinstance(op, ast.Eq) else 1
        return (1 - arm) if flip else arm

    divs = []
    for n in walk_no_nested(f.node):
        den = None
        if isinstance(n, ast.BinOp) and isinstance(n.op, ast.Div):
            den = n.right
        elif isinstance(n, ast.Call) and src(n.func).split(".")[-1] in ("divide", "true_divide") and len(n.args) >= 2:
            den = n.args[1]
        elif isinstance(n, ast.AugAssign) and isinstance(n.op, ast.Div):
            den = n.value
        if den is not None:
            c = cone(du, den, du.stmt_of(n), interproc=False)
            if any(a.endswith(".t") for a in c.attrs):
                divs.append((n, den))
    if not divs:
        R.violation("GUARD.frames", KEY, "division by the number of frames", "frame_length_normalization no longer divides by the number of frames T")
    wheres = [c_ for c_ in walk_no_nested(f.node) if isinstance(c_, ast.Call) and src(c_.func).split(".")[-1] == "where" and len(c_.args) == 3]
    for d, den in divs:
        st = du.stmt_of(d)
        g = guards_of(st)
        under_flag = any(isinstance(t, ast.Name) and t.id == fln and pol_ for t, pol_ in g) or any(src(t) == fln and pol_ for t, pol_ in g)
        R.check(under_flag, "GUARD.frames-flag", KEY, src(d)[:50], "only under frame_length_normalization", "the score is divided by the frame count even when frame_length_normalization is off (or never when on)", d.lineno)
        # the quotient is only used as the arm of np.where(<no frames>, 0, .) that is taken when there *are* frames
        ok = False
        for w in wheres:
            wst = du.stmt_of(w)
            sm = small_arm(w.args[0], wst)
            if sm is None:
                continue
            zero_arm, val_arm = w.args[1 + sm], w.args[2 - sm]
            vc = cone(du, val_arm, wst, interproc=False)
            if any(x is d for x in vc.nodes) and const_value(zero_arm) in (0, 0.0):
                ok = True
        R.check(ok, "GUARD.frames-zero", KEY, src(d)[:50], "masked by np.where(|T| <= eps, 0, .)", "division by the frame count is not masked for zero-frame statistics: 0/0 = NaN scores", d.lineno)
        # normalising by T, not N
        c = cone(du, den, st, interproc=False)
        by_n = any(a.endswith(".n") for a in c.attrs)
        R.check(not by_n, "GUARD.frames-t", KEY, f"denominator of {src(d)[:40]}", "number of frames T", "normalised by the component counts N instead of the number of frames T", d.lineno)
    # ---- MAP -> prior unwrapping dominates the reads ----------------------------------------------
    unwrap = None
    for n in du.cfg.nodes():
        if isinstance(n, ast.If) and "trainer" in src(n.test) and "map" in src(n.test):
            for st2, t, v, k in stores(n):
                if isinstance(t, ast.Name) and t.id == ubm and isinstance(v, ast.Attribute) and v.attr == "ubm":
                    unwrap = n
                    # the replacement happens exactly when the trainer *is* "map"
                    pol_ok = False
                    for test, polarity in guards_of(du.stmt_of(st2)):
                        if isinstance(test, ast.Compare) and len(test.ops) == 1 and "trainer" in src(test) and any(isinstance(c, ast.Constant) and c.value == "map" for c in ast.walk(test)):
                            if (isinstance(test.ops[0], (ast.Eq, ast.In)) and polarity) or (isinstance(test.ops[0], (ast.NotEq, ast.NotIn)) and not polarity):
                                pol_ok = True
                    R.check(pol_ok, "DOM.unwrap-when-map", KEY, f"`{src(st2)}` under `{src(n.test)}`", "prior taken when the trainer is 'map'", "the MAP -> prior replacement is not executed exactly for MAP machines (inverted or different test): a MAP machine is scored with its own parameters, an ML machine is dereferenced to its (absent) prior", st2.lineno)
    if unwrap is None:
        R.violation("DOM.unwrap", KEY, f"if {ubm}.trainer == 'map': {ubm} = {ubm}.ubm", "a MAP-adapted machine passed as UBM is no longer replaced by its prior: scores differ between the adapted machine and its prior")
    else:
        nreads = 0
        used = set()
        for r in rets:
            used |= {id(x) for x in cone(du, r.value, r, interproc=False).nodes}
        for n in walk_no_nested(f.node):
            if id(n) not in used:
                continue  # a read that does not reach the score is irrelevant
            is_read = isinstance(n, ast.Attribute) and isinstance(n.value, ast.Name) and n.value.id == ubm and n.attr in ("means", "variances")
            # handing the UBM to a helper of the package that reads its parameters is a read at that point
            if isinstance(n, ast.Call) and any(isinstance(a_, ast.Name) and a_.id == ubm for a_ in list(n.args) + [k_.value for k_ in n.keywords]) and any(t_[0] == "repo" for t_ in P.resolve_callee(n.func, f)):
                is_read = True
            if is_read:
                st = du.stmt_of(n)
                nreads += 1
                ok = st is not unwrap and du.cfg.dominates(unwrap, st) and not du.cfg.reach_avoiding(st, unwrap)
                R.check(ok, "DOM.unwrap", KEY, f"{src(n)} in `{src(st)[:50]}`", "read after the unwrapping", "UBM parameter read before the MAP -> prior unwrapping", n.lineno)
        R.floor("DOM.unwrap reads", nreads, 2)
    # ---- dependence on every input -----------------------------------------------------------------
    allc = None
    for r in rets:
        allc = cone(du, r.value, r, interproc=True)  # through helpers of the package that compute the two factors
        for prm in (models, ubm, stats, offs):
            R.check(prm in allc.params, "DEP.score", KEY, f"score depends on {prm}", "", f"the score does not depend on {prm}")
        for a in ("sum_px", "n", "means", "variances"):
            R.check(allc.has_attr(a), "DEP.score", KEY, f"score depends on .{a}", "", f"the score does not depend on the {a} of its inputs")
    # ---- input normalisation ------------------------------------------------------------------------
    def norm_scopes(var):
        """(function, name of the value in it): the scoring function itself and helpers that normalise `var` and hand it back"""
        out = [(f, var)]
        for st2, t, v, k in stores(f):
            if isinstance(t, ast.Name) and t.id == var and isinstance(v, ast.Call):
                for t_ in P.resolve_callee(v.func, f):
                    if t_[0] == "repo":
                        b_ = P.bind_args(t_[1], v.args, v.keywords)
                        pn = next((p_ for p_, a_ in b_.items() if isinstance(a_, ast.Name) and a_.id == var), None)
                        if pn:
                            out.append((t_[1], pn))
        return out

    wrapped = False
    for g_, stats_ in norm_scopes(stats):
        for n in walk_no_nested(g_.node):
            if isinstance(n, ast.If) and "isinstance" in src(n.test) and stats_ in src(n.test) and "GMMStats" in src(n.test):
                for st2, t, v, k in stores(n):
                    if isinstance(t, ast.Name) and t.id == stats_ and isinstance(v, ast.List) and len(v.elts) == 1 and src(v.elts[0]) == stats_:
                        wrapped = True
                for r_ in walk_no_nested(n):
                    if isinstance(r_, ast.Return) and isinstance(r_.value, ast.List) and len(r_.value.elts) == 1 and src(r_.value.elts[0]) == stats_:
                        wrapped = True
    R.check(wrapped, "NORM.stats", KEY, f"{stats} = [{stats}] for a bare GMMStats", "", "a single statistics object is no longer wrapped in a list (one column per test item)")
    means_of = False
    for g_, models_ in norm_scopes(models):
        gdu_ = get_defuse(g_, P)
        for n in walk_no_nested(g_.node):
            if isinstance(n, ast.If) and "isinstance" in src(n.test) and "GMMMachine" in src(n.test):
                for st2, t, v, k in stores(n):
                    if isinstance(t, ast.Name) and t.id == models_:
                        c = cone(gdu_, v, gdu_.stmt_of(st2), interproc=False)
                        means_of = means_of or any(a.endswith(".means") for a in c.attrs)
                for r_ in walk_no_nested(n):
                    if isinstance(r_, ast.Return) and r_.value is not None:
                        c = cone(gdu_, r_.value, r_, interproc=False)
                        means_of = means_of or any(a.endswith(".means") for a in c.attrs)
    R.check(means_of, "NORM.models", KEY, f"{models} <- [m.means for m in {models}]", "", "machines given as models are not reduced to their means")
    # a single (n_gaussians, n_features) model is expanded to one row of models
    exp2d = False
    EXPAND = ("None", "newaxis", "expand_dims", "ndmin", "reshape", "atleast_3d")
    for g_, models_ in norm_scopes(models):
        for n_ in walk_no_nested(g_.node):
            if isinstance(n_, ast.If) and "ndim" in src(n_.test) and "2" in src(n_.test):
                for st2, t2, v2, k2 in stores(n_):
                    if isinstance(t2, ast.Name) and t2.id == models_ and v2 is not None and any(x in src(v2) for x in EXPAND):
                        exp2d = True
                for r_ in walk_no_nested(n_):
                    if isinstance(r_, ast.Return) and r_.value is not None and any(x in src(r_.value) for x in EXPAND):
                        exp2d = True
        if not exp2d:
            exp2d = any(isinstance(n_, ast.Call) and src(n_.func).split(".")[-1] in ("atleast_3d",) or (isinstance(n_, ast.Call) and any(kw.arg == "ndmin" and const_value(kw.value) == 3 for kw in n_.keywords)) for n_ in walk_no_nested(g_.node))
    # decided by the shape analysis when it can type the call with a (C, D) array as the models: the scores have one row
    from ..engines import dimrun as _dr2
    _obs2, _rets2 = _dr2.run_roots(P, ["ls.model2d"])
    _r2 = _rets2.get(("ls.model2d", None))
    if _r2 is not None and _r2.is_numlike and _r2.sh is not None:
        exp2d = len(_r2.sh) == 2 and _r2.sh[0] == "1"
    R.check(exp2d, "NORM.models-2d", KEY, f"{models}: (C, D) -> (1, C, D)", "a single model gives one row of scores", "a single model given as a (n_gaussians, n_features) array is no longer expanded to one row: its Gaussians are scored as separate models")
    from ..engines import dtype as _dt
    _dt.check_function(P, R, KEY, raw_attrs=("n", "sum_px", "sum_pxx"))
    from ..engines import traps as _traps
    _traps.check(P, R, ['linear_scoring'], scope='linear_scoring:')


EXPLANATION += ' Also: (LINEAR) no selective overwrite or non-linear operation on values the score is computed from, other than the zero-frame guard; (NORM.models-2d) a single (C, D) model becomes one row; the MAP -> prior replacement happens exactly for MAP machines; the frame guard is decided from which np.where arm is taken for empty statistics, however mask and quotient are spelled; helpers that compute the two factors are looked into.'
EXPLANATION += ' (LINEAR.ops) calls that only look at array metadata are not value operations; (DIM.ARMS) both arms of a run-time switch give a value the same dimension.'
EXPLANATION += " (BLOCK.carried) a loop that keeps one result per block computes it from that block's values and loop-invariant ones only: no local in its value cone may still hold what an earlier iteration assigned."
